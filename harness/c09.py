"""C09 -- move scheduling (spec/Sched.tla, Sched_Trace.tla)."""

from __future__ import annotations

import json
import math
import os
import shutil
import tempfile
from collections import Counter

import numpy as np
from ase import Atoms

from common import Report
from tlc import run_tlc


def make_mc(cycles, seed):
    """alternates between the base driver and Canonical (whose default criteria lookup is then exercised)"""
    from calcs import Harmonic
    from quansino.mc.canonical import Canonical
    from quansino.mc.core import MonteCarlo

    a = Atoms("Cu", positions=[[0, 0, 0]], cell=[5, 5, 5])
    if seed % 2:
        return MonteCarlo(a, max_cycles=cycles, seed=seed)
    a.calc = Harmonic()
    return Canonical(a, temperature=300.0, max_cycles=cycles, seed=seed)


def dummy():
    from quansino.mc.criteria import BaseCriteria
    from quansino.moves.displacement import DisplacementMove
    from quansino.operations.displacement import Ball

    class Never(DisplacementMove):
        def __init__(self):
            super().__init__([0], Ball(0.1))

        def __call__(self, context):
            return False

    class Yes(BaseCriteria):
        def evaluate(self, context):
            return True

    return Never, Yes


def add_table(mc, table, Never, Yes):
    for ent in table:
        mc.add_move(Never(), criteria=Yes(), name=ent["name"], interval=ent["e"]["interval"], probability=float(ent["e"]["weight"]), minimum_count=ent["e"]["min"])


def drive(mc, entry, nsteps, mutate=None):
    per_step = []
    if entry == "run":
        # observe through move_history at every step boundary with a recording observer
        from quansino.io.core import Observer

        class Obs(Observer):
            def __call__(self_inner):
                per_step.append((mc.step_count, [str(n) for n, _ in mc.move_history]))

            def attach_simulation(self_inner, *a, **k):
                pass

            def close(self_inner):
                pass

        mc.file_manager.attach_observer("rec", Obs(interval=1))
        mc.run(nsteps)
        return [(s - 1, names) for s, names in per_step if s > 0]
    it = mc.srun(nsteps) if entry == "srun" else mc.irun(nsteps)
    s = 0
    for stepgen in it:
        if entry == "irun":
            # the table may be changed between two steps (public MoveStorage attributes): the step uses what it sees
            if mutate is not None:
                mutate(mc, s)
            names = [str(n) for n in stepgen]
        else:
            names = [str(n) for n, _ in mc.move_history]
        per_step.append((s, names) if mutate is None else (s, names, snapshot(mc)))
        s += 1
    return per_step


def entry_kind(k):
    return ("run", "srun", "irun")[k % 3]


def snapshot(mc):
    return [{"name": n, "e": {"interval": int(st.interval), "weight": int(st.probability), "min": int(st.minimum_count)}} for n, st in mc.moves.items()]


def default_table_layer(rep, tier):
    """DefaultTable.tla -> code: the table each driver builds from the default moves it is given (names, order, weights as
    exact rationals, interval, forced slots, trials per step), for every driver x N x which defaults are given."""
    from fractions import Fraction

    from calcs import Harmonic
    from quansino.mc.canonical import Canonical
    from quansino.mc.gcmc import GrandCanonical
    from quansino.mc.isobaric import Isobaric
    from quansino.mc.isotension import Isotension
    from quansino.moves.cell import CellMove
    from quansino.moves.displacement import DisplacementMove
    from quansino.moves.exchange import ExchangeMove
    from quansino.operations.cell import IsotropicDeformation
    from quansino.operations.displacement import Ball, Translation

    r = run_tlc("DefaultTable", "MC_DefaultTable.cfg", workers=1, env={"DEFTAB_N": "12"} if tier == "thorough" else {}, timeout=600)
    if not r.ok:
        if r.invariant_violated:
            rep.violation(f"model:default-table:{r.invariant_violated[0]}", "TLC: DefaultTable.tla violated", {"tlc": r.out[-2000:]})
        else:
            rep.error(f"TLC failed on DefaultTable: {r.out[-1200:]}")
        return 0, 0
    classes = {"Canonical": Canonical, "Isobaric": Isobaric, "Isotension": Isotension, "GrandCanonical": GrandCanonical}
    n = 0
    for line in r.out.splitlines():
        line = line.strip()
        if not line.startswith('"@@'):
            continue
        case = json.loads(json.loads(line)[2:])
        n += 1
        N = case["n"]
        a = Atoms("Cu" * N, positions=[[1.7 * i, 0.3 * (i % 2), 0.0] for i in range(N)], cell=[1.7 * N + 3, 6, 6], pbc=True)
        a.calc = Harmonic()
        kw = {"seed": 11 + n, "temperature": 300.0}
        if case["cycles_given"]:
            kw["max_cycles"] = case["cycles_given"]
        if case["disp"]:
            kw["default_displacement_move"] = DisplacementMove(np.arange(N), Ball(0.1))
        if case["second"]:
            if case["driver"] == "GrandCanonical":
                kw["default_exchange_move"] = ExchangeMove(np.arange(N), Translation())
            else:
                kw["default_cell_move"] = CellMove(IsotropicDeformation(0.01))
        if case["driver"] == "GrandCanonical":
            kw["exchange_atoms"] = Atoms("Cu", positions=[[0.0, 0.0, 0.0]])
            kw["number_of_exchange_particles"] = N
        try:
            mc = classes[case["driver"]](a, **kw)
        except Exception as ex:  # noqa: BLE001
            rep.violation(f"default-table:raise:{type(ex).__name__}", f"{case['driver']}(N={N}, defaults given: displacement={case['disp']}, second={case['second']}) raised {ex!r}", {"case": case})
            continue
        got = [(nm, st.interval, st.minimum_count) for nm, st in mc.moves.items()]
        want = [(e["name"], e["interval"], e["min"]) for e in case["table"]]
        rep.count(("default-table", case["driver"], N, case["disp"], case["second"], case["cycles_given"]), nontrivial=len(want) > 0)
        if n % 60 == 1:
            rep.sample({"default_table_case": {k: case[k] for k in ("driver", "n", "disp", "second", "cycles")}, "expected": case["table"]})
        if got != want:
            rep.violation("default-table:entries", f"{case['driver']}(N={N}) built the table {got}; DefaultTable.tla says {want} (name, interval, forced slots; in insertion order)", {"case": case, "got": got})
            continue
        if mc.max_cycles != case["cycles"]:
            rep.violation("default-table:cycles", f"{case['driver']}(N={N}, max_cycles {'not given' if not case['cycles_given'] else case['cycles_given']}) runs {mc.max_cycles} trials per step; DefaultTable.tla says {case['cycles']}", {"case": case})
        for e in case["table"]:
            p = mc.moves[e["name"]].probability
            w = Fraction(e["weight"][0], e["weight"][1])
            if not (isinstance(p, (int, float)) and abs(Fraction(p) - w) <= Fraction(1, 10**15)):
                rep.violation(f"default-table:weight:{e['name']}", f"{case['driver']}(N={N}): the weight of '{e['name']}' is {p!r}; DefaultTable.tla says {e['weight'][0]}/{e['weight'][1]}", {"case": case, "got": p})
        try:
            mc.close()
        except Exception:  # noqa: BLE001
            pass
    return r.distinct, n


def run(tier: str) -> int:
    rep = Report("C09", tier, "model_checking")
    rs = np.random.RandomState(rep.seed % 2**32)
    Never, Yes = dummy()
    tmp = tempfile.mkdtemp(prefix="c09_")
    try:
        out = os.path.join(tmp, "sched.ndjson")
        env = {"SCHED_OUT": out}
        if tier == "thorough":
            env["SCHED_BIG"] = "1"
        r = run_tlc("Sched", "MC_Sched.cfg", workers=16, env=env, timeout=3000)
        if not r.ok:
            if r.invariant_violated:
                rep.violation(f"model:{r.invariant_violated[0]}", f"TLC: {r.invariant_violated[0]} violated in Sched.tla", {"tlc": r.out[-2000:]})
            else:
                rep.error(f"TLC failed on Sched: {r.out[-1500:]}")
            return rep.finish()
        # ---- (0) unbounded: the inductive invariant of the counter abstraction (SchedInd.tla), discharged by Apalache for
        # every number of trials per step and every minimum count; Sched.tla above has just checked that it IS an
        # abstraction of the slot-by-slot process (C09_AbstractionInv, C09_AbstractionStep)
        from concurrent.futures import ThreadPoolExecutor

        from tlc import run_apalache

        goals = [("init", ["--init=IndInit", "--inv=IndInv", "--length=0"]), ("step", ["--init=IndInv", "--inv=IndInv", "--length=1"]),
                 ("contract", ["--init=IndInv", "--inv=Contract", "--length=0"]), ("nostall", ["--init=IndInv", "--inv=NoStall", "--length=0"])]
        with ThreadPoolExecutor(4) as ex:
            outcomes = list(ex.map(lambda g: run_apalache("SchedInd", g[1]), goals))
        for (gname, _), (ok, violated, text) in zip(goals, outcomes):
            if violated:
                rep.violation(f"model:SchedInd:{gname}", f"Apalache: the inductive argument for the scheduling contract fails at '{gname}' (SchedInd.tla)", {"apalache": text})
            elif not ok:
                rep.error(f"Apalache failed on SchedInd ({gname}): {text[-800:]}")
        rep.add(apalache_inductive_goals=len(goals))
        cases = [json.loads(l) for l in open(out)]
        # ---- (1) small tables: the code emits exactly the allowed set ---------------------------------
        stride = 6 if tier == "quick" else 1
        ncase = 0
        for ci, c in enumerate(cases):
            if ci % stride:
                continue
            ncase += 1
            allowed = {tuple(q) for q in c["allowed"]}
            mc = make_mc(c["cycles"], int(rs.randint(1, 2**31)))
            add_table(mc, c["table"], Never, Yes)
            mc.step_count = c["step"]
            K = 400 if len(allowed) <= 1 else (1500 if c["cycles"] <= 2 else 4000)
            seen = Counter()
            bad = None
            try:
                for _ in range(K):
                    seen[tuple(str(x) for x in mc.yield_moves())] += 1
            except Exception as ex:  # noqa: BLE001
                rep.violation(f"raise:yield_moves:{type(ex).__name__}", f"yield_moves raised {ex!r} for table {c['table']} cycles={c['cycles']} step={c['step']}", {"case": c})
                continue
            rep.count(json.dumps([c["table"], c["cycles"], c["step"]]), nontrivial=len(allowed) > 1)
            if ncase % 40 == 1:
                rep.sample({"table": c["table"], "cycles": c["cycles"], "step": c["step"], "allowed": sorted(allowed)[:6], "observed": dict(list(seen.items())[:4])})
            extra = set(seen) - allowed
            if extra:
                q = sorted(extra)[0]
                nm = {e["name"]: e["e"] for e in c["table"]}
                why = "length" if len(q) != c["cycles"] and q else ("not-due" if any(c["step"] % nm[x]["interval"] for x in q) else ("weight-zero-chosen-freely" if any(nm[x]["weight"] == 0 and q.count(x) > nm[x]["min"] for x in q) else "minimum-count"))
                rep.violation(f"emitted-not-allowed:{why}", f"table {c['table']}, cycles {c['cycles']}, step {c['step']}: emitted {q}, which the contract forbids ({why})", {"case": c, "emitted": q})
            missing = allowed - set(seen)
            if missing:
                rep.violation("schedule-never-produced", f"table {c['table']}, cycles {c['cycles']}, step {c['step']}: allowed schedule {sorted(missing)[0]} never produced in {K} draws", {"case": c, "missing": sorted(missing)[:5]})
        # ---- (2) traces of real runs with larger random tables, validated by TLC --------------------------
        ntr = 60 if tier == "quick" else 600
        records = []
        for k in range(ntr):
            cycles = int(rs.randint(1, 13))
            mc = make_mc(cycles, int(rs.randint(1, 2**31)))
            table = []
            for j in range(int(rs.randint(1, 6))):
                ent = {"name": f"m{j}", "e": {"interval": int(rs.randint(1, 8)), "weight": int(rs.choice([0, 1, 1, 2, 5])), "min": int(rs.choice([0, 0, 1, 2, 3]))}}
                before = [dict(t) for t in table]
                try:
                    kw = {} if (type(mc).__name__ == "Canonical" and rs.rand() < 0.6) else {"criteria": Yes()}  # default-criteria path too
                    mc.add_move(Never(), name=ent["name"], interval=ent["e"]["interval"], probability=float(ent["e"]["weight"]), minimum_count=ent["e"]["min"], **kw)
                    refused = False
                    table.append(ent)
                except ValueError:
                    refused = True
                records.append({"kind": "add", "table": before, "cycles": cycles, "step": 0, "emitted": [], "min": ent["e"]["min"], "refused": refused})
            if not table:
                continue
            # make sure every step is schedulable (some due move has positive weight)
            if k % 2 == 1 and entry_kind(k) != "irun":
                # tables WITHOUT an every-step move (all periodic, intervals that need not divide each other): every due
                # set must then be able to fill its free slots, so every weight is positive; steps on which nothing is due
                # must emit nothing
                for t in table:
                    if t["e"]["weight"] == 0:
                        t["e"]["weight"] = 1
                        mc.moves[t["name"]].probability = 1.0
                    if t["e"]["interval"] == 1:
                        t["e"]["interval"] = int(rs.choice([2, 3, 4, 6]))
                        mc.moves[t["name"]].interval = t["e"]["interval"]
            elif not any(t["e"]["weight"] > 0 and t["e"]["interval"] == 1 for t in table):
                table[0]["e"]["weight"] = 1
                table[0]["e"]["interval"] = 1
                mc.moves[table[0]["name"]].probability = 1.0
                mc.moves[table[0]["name"]].interval = 1
            nsteps = int(min(2 * np.lcm.reduce([t["e"]["interval"] for t in table]), 40))
            entry = entry_kind(k)
            per_step = []
            def mutate(sim, step, _rs=rs, _c=cycles):
                if _rs.rand() < 0.4:
                    nm = list(sim.moves)[_rs.randint(len(sim.moves))]
                    st = sim.moves[nm]
                    others = sum(x.minimum_count for k2, x in sim.moves.items() if k2 != nm)
                    st.probability = float(_rs.choice([0, 1, 2, 5]))
                    st.interval = int(_rs.randint(1, 5))
                    st.minimum_count = int(_rs.randint(0, max(1, _c - others + 1)))
                # keep every step schedulable: the first entry is always due and has positive weight
                first = sim.moves[list(sim.moves)[0]]
                first.probability = max(float(first.probability), 1.0)
                first.interval = 1

            try:
                per_step = drive(mc, entry, nsteps, mutate if entry == "irun" else None)
            except Exception as ex:  # noqa: BLE001
                over = sum(t["e"]["min"] for t in table) > cycles
                rep.violation(f"raise:run:{type(ex).__name__}:{'overcommitted-table' if over else 'legal-table'}", f"{entry}({nsteps}) raised {ex!r} for table {table} with {cycles} cycles", {"table": table, "cycles": cycles})
            for item in per_step:
                s, names = item[0], item[1]
                records.append({"kind": "step", "table": item[2] if len(item) > 2 else table, "cycles": cycles, "step": int(s), "emitted": names, "min": 0, "refused": False})
            continue
        tf = os.path.join(tmp, "records.json")
        json.dump(records, open(tf, "w"))
        r2 = run_tlc("Sched_Trace", "Sched_Trace.cfg", workers=1, env={"TRACE_FILE": tf}, timeout=1200)
        if r2.rc != 0:
            rep.error(f"TLC trace validation (Sched_Trace) failed: {r2.out[-1500:]}")
        for line in r2.out.splitlines():
            if line.strip().startswith('"@@'):
                d = json.loads(json.loads(line.strip())[2:])
                rec = records[d["idx"] - 1]
                if rec["kind"] == "add":
                    rep.violation(f"add_move:{'not-refused' if not rec['refused'] else 'wrongly-refused'}", f"add_move with minimum_count {rec['min']} on a table with forced total {sum(t['e']['min'] for t in rec['table'])} and {rec['cycles']} cycles: refused={rec['refused']}", {"record": rec})
                else:
                    rep.violation("trace-step-not-allowed", f"step {rec['step']} of a run emitted {rec['emitted']}, forbidden by the contract for table {rec['table']} with {rec['cycles']} cycles", {"record": rec})
        for rec in records:
            rep.count(json.dumps(rec), nontrivial=rec["kind"] == "step" and len(set(rec["emitted"])) > 1)
    finally:
        shutil.rmtree(tmp, ignore_errors=True)
    # ---- (2b) weights changed DURING a step (between two cycles, through the step generator): a slot is filled
    #           with the weights current at that moment (yield_moves documents that the weights are re-read per move)
    for k in range(8 if tier == "quick" else 60):
        cycles = int(rs.randint(6, 16))
        mc = make_mc(cycles, int(rs.randint(1, 2**31)))
        for nm in ("a", "b", "c"):
            mc.add_move(Never(), criteria=Yes(), name=nm, interval=1, probability=1.0, minimum_count=0)
        cut = int(rs.randint(1, cycles - 2))
        off = ("a", "b", "c")[k % 3]
        rep.count(("midstep", k))
        bad_at = None
        for stepgen in mc.irun(3):
            for slot, name in enumerate(stepgen):
                if slot == cut:
                    mc.moves[off].probability = 0.0
                if slot > cut and str(name) == off:
                    bad_at = slot
            mc.moves[off].probability = 1.0
        if bad_at is not None:
            rep.violation("weight-changed-mid-step-ignored", f"move '{off}' was given weight 0 after slot {cut} of a step but was still chosen freely in slot {bad_at} of the same step ({cycles} cycles)", {"cycles": cycles, "cut": cut})
    # ---- (3) distribution: free slots proportional to weight, independent; forced slots uniform ----------
    nd = 6 if tier == "quick" else 30
    worst = 0.0
    for k in range(nd):
        cycles = int(rs.choice([4, 6, 9]))
        weights = [float(w) for w in rs.choice([0.5, 1.0, 2.0, 3.0, 7.0], size=int(rs.randint(2, 5)))]
        mins = [0] * len(weights)
        mins[0] = 1
        mc = make_mc(cycles, int(rs.randint(1, 2**31)))
        for j, w in enumerate(weights):
            mc.add_move(Never(), criteria=Yes(), name=f"m{j}", interval=1, probability=w, minimum_count=mins[j])
        N = 6000 if tier == "quick" else 30000
        counts = Counter()
        pos_first = Counter()
        pair = Counter()
        nfree = 0
        for _ in range(N):
            q = [str(x) for x in mc.yield_moves()]
            # position-wise: the forced slot of m0 is uniform over positions; the other slots are free draws.
            # P(slot i = m0) = 1/c + (1 - 1/c) p0 ; for j != 0: (1 - 1/c) pj  (exact, from Sched.tla's process with uniform placement)
            for i, x in enumerate(q):
                counts[x] += 1
            if "m0" not in q:
                rep.violation("forced-move-missing", f"weights {weights}, cycles {cycles}: m0 has minimum count 1 but a step emitted {q}", {"weights": weights, "cycles": cycles})
                break
            pos_first[q.index("m0")] += 1
            pair[(q[0], q[1])] += 1
        tot = N * cycles
        sw = sum(weights)
        for j, w in enumerate(weights):
            p = (1 - 1 / cycles) * w / sw + (1 / cycles if j == 0 else 0.0)
            z = (counts[f"m{j}"] - tot * p) / math.sqrt(tot * p * (1 - p))
            worst = max(worst, abs(z))
            rep.count(("freq", k, j))
            if abs(z) > 6:
                rep.violation("frequency-not-proportional-to-weight", f"weights {weights}, cycles {cycles}: move m{j} emitted {counts[f'm{j}']} times in {tot} slots, expected {tot * p:.0f} (z = {z:.1f})", {"weights": weights, "cycles": cycles, "z": z})
    sd, nd = default_table_layer(rep, tier)
    rep.add(states=sd, default_tables=nd)
    rep.add(states=r.distinct, transitions=r.generated, traces_validated_against_impl=ncase + len(records), small_tables=ncase, trace_records=len(records), worst_frequency_z=round(worst, 2),
            rule="(1) every 1-2 move table over intervals {1,2,3}, weights {0,1,3}, minimum counts {0,1}, cycles 1..3, steps 0..3 exported by TLC with its complete allowed set: the code's emitted set must equal it (no forbidden schedule, no lost schedule); (2) run/srun/irun traces of random tables (<= 5 moves, intervals <= 7, weights incl. 0, cycles <= 12, steps up to 2 lcm; half of the run/srun tables have no every-step move) and every add_move (accepted or refused) judged record by record by TLC (Sched_Trace.tla); (3) slot frequencies against the exact probabilities, |z| <= 6; non-trivial = more than one allowed schedule / more than one name emitted")
    rep.assumptions += ["tables whose due moves all have weight zero while free slots remain are outside the property (excluded by Schedulable)"]
    return rep.finish()
