"""C11 -- engine traces validated against spec/QMC.tla (see qcheck.py)."""
from qcheck import engine_check


def run(tier):
    return engine_check("C11", tier)


def replay(record):
    from qcheck import replay as r

    return r(record)
