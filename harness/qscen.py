"""Seeded scenario generator for engine traces (C03 C04 C05 C11 C12 C20).

A scenario is a real quansino simulation (driver, atoms, calculator, move
table drawn from the grammar of DESIGN.md section 3.1) plus a controller that
acts at every yield the way a user script could: pre-select a target, make
the user's check_move veto some attempts, steer the verdict through the
table-driven calculator."""

from __future__ import annotations

import io

import numpy as np
from ase import Atoms
from ase.calculators.emt import EMT
from ase.constraints import FixAtoms, FixCom, Hookean
from ase.units import kB

from calcs import CountingEMT, CountingLJ, Harmonic, PairRebuild, TableCalc, fresh_like, new_like
from qrec import RecCell, RecDisp, RecExch, RecHam

from quansino.integrators.displacement import Verlet
from quansino.mc.canonical import Canonical, HamiltonianCanonical
from quansino.mc.criteria import CanonicalCriteria, GrandCanonicalCriteria
from quansino.mc.gcmc import GrandCanonical
from quansino.mc.isobaric import Isobaric
from quansino.mc.isotension import Isotension
from quansino.operations.cell import AnisotropicDeformation, IsotropicDeformation, ShapeDeformation
from quansino.operations.displacement import Ball, Box, Rotation, Sphere, Translation, TranslationRotation


class Veto:
    """user check_move: lets the next `skip` consultations pass, then vetoes the following `n`"""

    def __init__(self):
        self.n = 0
        self.skip = 0

    def __call__(self, *_a, **_k):
        if self.skip > 0:
            self.skip -= 1
            return True
        if self.n > 0:
            self.n -= 1
            return False
        return True


def make_atoms(rs, n, species, L=8.0, extras=True, molecules=False):
    pos = rs.rand(n, 3) * (L - 3) + 1.5
    # keep atoms apart so that EMT/LJ energies are moderate
    for _ in range(50):
        d = np.linalg.norm(pos[:, None] - pos[None], axis=2) + np.eye(n) * 9
        if d.min() > 1.9:
            break
        i = np.unravel_index(d.argmin(), d.shape)[0]
        pos[i] = rs.rand(3) * (L - 3) + 1.5
    a = Atoms(species if isinstance(species, str) else "".join(species), positions=pos, cell=[L, L * 1.05, L * 0.95], pbc=True)
    if extras:
        a.set_tags(rs.randint(0, 5, n))
        a.set_momenta(rs.randn(n, 3))
        a.set_initial_charges(rs.randn(n))
        a.set_array("custom2d", rs.rand(n, 2))
        a.set_array("flag8", rs.randint(-3, 4, n).astype(np.int8))
    return a


def pick_calc(rs, atoms, allow=("emt", "lj", "harm", "pair", "table")):
    k = allow[rs.randint(len(allow))]
    if k == "emt":
        return CountingEMT()
    if k == "lj":
        return CountingLJ(sigma=2.2, epsilon=0.05, rc=5.0, smooth=True)
    if k == "harm":
        return Harmonic(k=0.4, centers=atoms.positions + 0.3, eps=0.05, cellk=0.0005, zterm=0.002)
    if k == "pair":
        return PairRebuild(a=0.5, rc=3.5, zterm=0.002)
    return TableCalc()


def disp_op(rs, molecular):
    if molecular:
        ops = [lambda: Ball(0.4), lambda: Rotation(), lambda: TranslationRotation(), lambda: Translation(), lambda: Box(0.3) + Ball(0.2)]
    else:
        ops = [lambda: Ball(0.5), lambda: Box(0.4), lambda: Sphere(0.3), lambda: Ball(0.3) + Box(0.2), lambda: Ball(0.2) * 2]
    return ops[rs.randint(len(ops))]()


def random_labels(rs, n, molecular, allow_negative=True):
    if molecular:
        k = max(1, n // 2)
        lab = np.array([i % k for i in range(n)])
        rs.shuffle(lab)
        lab = lab * rs.choice([1, 2, 3]) + rs.choice([0, 0, 4])
    else:
        lab = rs.permutation(n) * rs.choice([1, 1, 2]) + rs.choice([0, 0, 3])
    if allow_negative and n > 2 and rs.rand() < 0.5:
        lab[rs.randint(n)] = -1
        if n > 3 and rs.rand() < 0.5:
            lab[rs.randint(n)] = int(rs.choice([-2, -3, -7]))  # several distinct do-not-touch labels
    return lab


class Scenario:
    def __init__(self):
        self.mc = None
        self.steps = 4
        self.fresh = None
        self.meta = {}
        self.vetoes = []  # (move, Veto)
        self.rs = None
        self.table_script = None

    def veto_active(self):
        """did the user's check_move veto anything since the last yield (or is a veto still pending)?"""
        return any(v.n != getattr(v, "n_at_yield", 0) or v.n > 0 or v.skip > 0 for _, v in self.vetoes)

    def controller(self, name):
        """at every yield"""
        rs = self.rs
        mc = self.mc
        calc = mc.atoms.calc
        T = max(getattr(mc.context, "temperature", 300.0), 1.0) * kB
        if isinstance(calc, TableCalc):
            calc.reference = getattr(mc.context, "last_potential_energy", 0.0)
            if not np.isfinite(calc.reference):
                calc.reference = 0.0
            calc.next_delta = (-30.0 * T) if rs.rand() < 0.5 else (300.0 * T)
        for m, v in self.vetoes:
            r = rs.rand()
            v.n = 0 if r < 0.5 else (1 if r < 0.65 else (2 if r < 0.75 else (3 if r < 0.85 else 10**6)))
            v.skip = 0 if rs.rand() < 0.6 else int(rs.randint(1, 4))  # e.g. first element of a composite passes, a later one is refused
            v.n_at_yield = v.n
        # occasional pre-selection by the "user"
        from project import elementary_moves

        st = mc.moves[name]
        from project import composite_kind

        if name == "del2" and rs.rand() < 0.7:
            # the user pre-selects the elements of the two-deletions trial: two different particles in either index order
            # and, for the displacement that follows, a third one -- preferably one that sits between them
            els = list(st.move.moves)
            labs = [int(x) for x in els[0].unique_labels]
            if len(labs) >= 2:
                a_, b_ = (int(x) for x in rs.choice(labs, size=2, replace=False))
                els[0].to_delete_label, els[1].to_delete_label = a_, b_
                if len(els) > 2 and len(labs) >= 3:
                    rest = [x for x in labs if x not in (a_, b_)]
                    first = {x: int(np.where(els[2].labels == x)[0][0]) for x in labs}
                    between = [x for x in rest if min(first[a_], first[b_]) < first[x] < max(first[a_], first[b_])]
                    els[2].to_displace_labels = int(rs.choice(between if between and rs.rand() < 0.8 else rest))
        if composite_kind(st.move) == "single" and rs.rand() < 0.25:
            m = st.move
            if hasattr(m, "unique_labels") and len(m.unique_labels):
                if isinstance(m, RecExch):
                    if rs.rand() < 0.5:
                        m.to_delete_label = int(rs.choice(m.unique_labels))
                    else:
                        t = mc.context.exchange_atoms
                        r2 = rs.rand()
                        if r2 < 0.6:
                            m.to_add_atoms = t.copy()
                        elif len(t) == 1:
                            # the documented pre-selection takes any particle: here two atoms instead of the one-atom template
                            second = t.copy()
                            second.positions += [0.9, 0.0, 0.0]
                            m.to_add_atoms = t.copy() + second
                        else:
                            m.to_add_atoms = t[:1]  # ... or one atom instead of the two-atom template
                elif isinstance(m, RecDisp):
                    m.to_displace_labels = int(rs.choice(m.unique_labels))


def attach_veto(sc, move, p=0.5):
    if sc.rs.rand() < p:
        v = Veto()
        move.check_move = v
        move.max_attempts = 3
        sc.vetoes.append((move, v))


def maybe_logfile(rs):
    return io.StringIO() if rs.rand() < 0.5 else None


def restart_prologue(sc, warm):
    """The recorded run starts from a simulation rebuilt the documented way: (a few unrecorded steps,) to_dict, JSON
    round trip, from_dict, a FRESH calculator attached.  The rebuilt simulation knows its reference energy but its
    calculator has no results yet."""
    from ase.io.jsonio import decode, encode

    from project import elementary_moves

    old = sc.mc
    if warm and not isinstance(old.atoms.calc, TableCalc) and not (sc.meta["family"] == "gc" and getattr(old.atoms.calc, "style", "") == "internal"):
        old.run(warm)  # (a rejected exchange leaves a calculator with per-atom internal state unusable: known finding)
    else:
        old.validate_simulation()
    data = decode(encode(old.to_dict()))
    new = type(old).from_dict(data)
    new.atoms.calc = new_like(old.atoms.calc)
    veto_of = {id(m): v for m, v in sc.vetoes}
    sc.vetoes = []
    done = set()
    for name in old.moves:
        for mo, mn in zip(elementary_moves(old.moves[name].move), elementary_moves(new.moves[name].move)):
            if id(mo) in veto_of and id(mn) not in done:
                mn.check_move = veto_of[id(mo)]
                mn.max_attempts = 3
                sc.vetoes.append((mn, veto_of[id(mo)]))
                done.add(id(mn))
    try:
        old.close()
    except Exception:  # noqa: BLE001
        pass
    sc.mc = new
    sc.meta["restarted"] = True


def build(seed: int, family: str | None = None, allow_restart: bool = True) -> Scenario:
    rs = np.random.RandomState(seed % (2**32))
    sc = Scenario()
    sc.rs = rs
    fam = family or ["canon", "canon", "gc", "gc", "gc", "npt", "hmc"][rs.randint(7)]
    # "<family>_noreset": a two-leg run whose user edits the atoms between the legs WITHOUT declaring the remembered energy
    # void (the reference energy is then stale by the user's doing: such runs are used for C03 / C12 only, never for C04)
    noreset = fam.endswith("_noreset")
    fam = fam.replace("_noreset", "")
    # "gcmix": a grand-canonical run over particles of three different species whose only move is a double exchange
    # (composite of two), biased towards deletion: rejected double deletions in either index order are frequent
    mix = fam == "gcmix"
    # "gccoarse": a grand-canonical run of four atomic particles with a displacement move that groups them in rigid PAIRS
    # (coarser than the exchange move), no default labels, long enough for "part of the top group deleted, then an insertion"
    coarse = fam == "gccoarse"
    if mix or coarse:
        fam = "gc"
    sc.meta = {"family": ("gcmix" if mix else "gccoarse" if coarse else fam) + ("_noreset" if noreset else ""), "scenario_seed": int(seed)}
    sim_seed = int(rs.randint(1, 2**31 - 1))
    if fam == "canon":
        molecular = rs.rand() < 0.4
        n = int(rs.randint(3, 7))
        atoms = make_atoms(rs, n, f"Cu{n}", extras=rs.rand() < 0.7)
        atoms.calc = pick_calc(rs, atoms)
        cons = []
        if rs.rand() < 0.4:
            cons.append(FixAtoms(indices=sorted(rs.choice(n, size=rs.randint(1, max(2, n - 1)), replace=False).tolist())))
        elif rs.rand() < 0.5:
            cons.append(FixCom())
        if rs.rand() < 0.3 and not any(isinstance(c, FixCom) for c in cons):
            # a restraint: contributes to the energy the driver reports and remembers (not to the calculator's results)
            cons.append(Hookean(a1=int(rs.randint(n)), a2=tuple(float(x) for x in atoms.positions[int(rs.randint(n))] + 0.7), k=float(rs.choice([0.2, 1.5])), rt=0.0))
        if cons:
            atoms.set_constraint(cons)
        if any(isinstance(c, FixCom) for c in cons):
            # a rigid move of the whole system under FixCom is undone up to rounding (a physical no-op
            # whose bits differ): keep several particles so that every trial really changes the configuration
            molecular = False
        mc = Canonical(atoms, temperature=float(rs.choice([300.0, 3000.0, 30000.0])), max_cycles=int(rs.randint(1, 4)), seed=sim_seed, logfile=maybe_logfile(rs))
        nm = int(rs.randint(1, 3))
        for k in range(nm):
            d = RecDisp(random_labels(rs, n, molecular), disp_op(rs, molecular))
            attach_veto(sc, d, 0.6)
            shape = rs.randint(5)
            if shape == 0:
                mv = d
            elif shape == 1:
                mv = d * int(rs.randint(1, 4))
            elif shape == 2:
                d2 = RecDisp(random_labels(rs, n, molecular), disp_op(rs, molecular))
                attach_veto(sc, d2, 0.3)
                mv = d + d2
            elif shape == 3:
                d2 = RecDisp(random_labels(rs, n, molecular), disp_op(rs, molecular))
                mv = d + (d2 + d)
            else:
                mv = (d * 2) + d
            mc.add_move(mv, criteria=CanonicalCriteria(), name=f"mv{k}", interval=int(rs.choice([1, 1, 2])), probability=float(rs.choice([1.0, 0.5])))
    elif fam == "hmc":
        n = int(rs.randint(2, 5))
        atoms = make_atoms(rs, n, f"Cu{n}", extras=rs.rand() < 0.5)
        atoms.calc = pick_calc(rs, atoms, allow=("emt", "harm", "pair"))
        if rs.rand() < 0.3:
            atoms.set_constraint(FixAtoms(indices=[0]))
        elif np.random.RandomState((seed ^ 0xC0FFEE) % (2**32)).rand() < 0.4:
            # a collective constraint: the remembered momenta are then no bitwise fixed point of adjust_momenta (restoring
            # them through set_momenta changes their last bits).  (A generator of its own: the other runs stay what they were.)
            atoms.set_constraint(FixCom())
        mc = HamiltonianCanonical(atoms, temperature=float(rs.choice([300.0, 2000.0])), max_cycles=int(rs.randint(1, 3)), seed=sim_seed, logfile=maybe_logfile(rs))
        h = RecHam(operation=Verlet(dt=float(rs.choice([0.5, 2.0, 8.0])), max_steps=int(rs.randint(1, 4))))
        if np.random.RandomState((seed ^ 0xD7) % (2**32)).rand() < 0.5:
            # half of the runs: a time step at which a good part of the trajectories is REJECTED by the criteria (the
            # sample had next to none: "a rejected Hamiltonian trial restores positions and momenta" was hardly exercised)
            h.operation.dt *= 12.0
        attach_veto(sc, h, 0.3)
        mc.add_move(h, name="ham")
        if rs.rand() < 0.5:
            d = RecDisp(random_labels(rs, n, False), Ball(0.4))
            mc.add_move(d, criteria=CanonicalCriteria(), name="disp")
    elif fam == "npt":
        n = int(rs.randint(2, 6))
        atoms = make_atoms(rs, n, f"Cu{n}", extras=rs.rand() < 0.5)
        atoms.calc = pick_calc(rs, atoms)
        if rs.rand() < 0.3:
            atoms.set_constraint(FixAtoms(indices=[int(rs.randint(n))]))
        cls = Isobaric if rs.rand() < 0.6 else Isotension
        kw = {}
        if cls is Isotension:
            kw["external_stress"] = np.diag(rs.rand(3) * 0.01)
        mc = cls(atoms, temperature=float(rs.choice([300.0, 3000.0, 30000.0])), pressure=float(rs.choice([0.0, 0.01])), max_cycles=int(rs.randint(1, 4)), seed=sim_seed, logfile=maybe_logfile(rs), **kw)
        op = [IsotropicDeformation(0.05), AnisotropicDeformation(0.03), ShapeDeformation(0.03)][rs.randint(3)]
        c = RecCell(op, scale_atoms=bool(rs.rand() < 0.7))
        attach_veto(sc, c, 0.4)
        mc.add_move(c, name="cell")
        if rs.rand() < 0.7:
            d = RecDisp(random_labels(rs, n, False), disp_op(rs, False))
            attach_veto(sc, d, 0.3)
            mc.add_move(d if rs.rand() < 0.6 else d * 2, criteria=CanonicalCriteria(), name="disp")
        if rs.rand() < 0.3:
            from quansino.mc.criteria import IsobaricCriteria

            mc.add_move(c + RecDisp(random_labels(rs, n, False), Ball(0.3)), criteria=IsobaricCriteria(), name="mixed")
    elif fam == "gc":
        molecular = rs.rand() < 0.5 and not mix and not coarse
        n0 = int(rs.randint(1, 4)) if not mix else int(rs.randint(3, 5))
        if coarse:
            n0 = 4
        if molecular:
            tmpl = Atoms("CO", positions=[[0, 0, 0], [0, 0, 1.13]])
            symbols = ["C", "O"] * n0
            base = make_atoms(rs, 2 * n0, symbols, extras=False)
            for k in range(n0):
                base.positions[2 * k + 1] = base.positions[2 * k] + [0, 0, 1.13]
            lab0 = np.repeat(np.arange(n0), 2)
        else:
            tmpl = Atoms("Cu", positions=[[0, 0, 0]])
            # particles of different species (half of the runs): which particle sits where then matters to the energy
            base = make_atoms(rs, n0, [str(x) for x in rs.choice(["Cu", "Ag", "Au", "Ni"], n0)] if (rs.rand() < 0.5 or mix) else f"Cu{n0}", extras=False)
            if mix:
                base.set_chemical_symbols((["Cu", "Ag", "Au", "Ni"] * 2)[:n0])
            lab0 = np.arange(n0)
        extras = rs.rand() < 0.6
        if extras:
            for a in (base, tmpl):
                k = len(a)
                a.set_tags(rs.randint(0, 5, k))
                a.set_momenta(rs.randn(k, 3))
                a.set_initial_charges(rs.randn(k))
                a.set_array("custom2d", rs.rand(k, 2))
                a.set_array("flag8", rs.randint(-3, 4, k).astype(np.int8))
        # optional spectator atoms that are never exchanged (label -1), maybe fixed
        nspec = int(rs.randint(0, 3))
        if nspec:
            spec = make_atoms(rs, nspec, f"Cu{nspec}", extras=False)
            if extras:
                spec.set_tags(rs.randint(0, 5, nspec))
                spec.set_momenta(rs.randn(nspec, 3))
                spec.set_initial_charges(rs.randn(nspec))
                spec.set_array("custom2d", rs.rand(nspec, 2))
                spec.set_array("flag8", rs.randint(-3, 4, nspec).astype(np.int8))
            atoms = spec + base
            lab0 = np.concatenate([np.full(nspec, -1), lab0])
            if rs.rand() < 0.5:
                atoms.set_constraint(FixAtoms(indices=list(range(nspec))))
        else:
            atoms = base
            if rs.rand() < 0.25 and len(atoms) > 1:
                atoms.set_constraint(FixAtoms(indices=[len(atoms) - 1]))
        # calculators with per-atom internal state are left unusable by a rejected exchange
        # (known finding, truncates the trace): keep them to a third of the runs
        atoms.calc = pick_calc(rs, atoms) if (rs.rand() < 0.35 and not mix) else pick_calc(rs, atoms, allow=("harm", "pair", "table"))
        mc = GrandCanonical(atoms, exchange_atoms=tmpl, temperature=float(rs.choice([300.0, 3000.0])), chemical_potential=float(rs.choice([-0.5, 0.0, 0.5, 3.0])),
                            number_of_exchange_particles=n0, max_cycles=int(rs.randint(1, 4)), seed=sim_seed, logfile=maybe_logfile(rs))
        if rs.rand() < 0.3:
            mc.accessible_volume = float(atoms.cell.volume * rs.choice([0.5, 1.0]))
        mult = rs.choice([1, 1, 2, 3]) if not molecular else rs.choice([1, 1, 2])
        lab = lab0 * mult
        e = RecExch(lab.copy(), Translation() if not molecular else TranslationRotation(), bias_towards_insert=float(rs.choice([0.5, 0.5, 0.3, 0.7])))
        attach_veto(sc, e, 0.3)
        if rs.rand() < 0.4 and not coarse:
            e.default_label = int(rs.choice([0, -1, 7, 2]))
        shape = rs.randint(7)
        mix_del2 = mix and rs.rand() < 0.5      # half of the gcmix runs: a single exchange move plus the two-deletions entry below
        if mix:
            shape = 0 if mix_del2 else 2
            e.bias_towards_insert = 0.5 if mix_del2 else 0.25
        if shape <= 1:
            mc.add_move(e, name="exch")
        elif shape == 2:
            mc.add_move(e * 2, criteria=GrandCanonicalCriteria(), name="exch2")
        elif shape == 3:
            e2 = RecExch(lab.copy(), Translation() if not molecular else TranslationRotation())
            mc.add_move(e + e2, criteria=GrandCanonicalCriteria(), name="exch_pair")
        elif shape == 4:
            mc.add_move(e, name="exch")
            mc.add_move(e, name="exch_again", probability=0.5)
        elif shape == 5:
            mc.add_move(e, name="exch")
            mc.add_move(e * 2, criteria=GrandCanonicalCriteria(), name="exch2", probability=0.5)
        else:
            # identity swap: a generic composite of a deleting and an inserting exchange move (one trial deletes AND inserts)
            from quansino.moves.composite import CompositeMove

            e_del = RecExch(lab.copy(), Translation() if not molecular else TranslationRotation(), bias_towards_insert=0.0)
            e_ins = RecExch(lab.copy(), Translation() if not molecular else TranslationRotation(), bias_towards_insert=1.0)
            # either order inside the one trial: delete then insert, or insert then delete
            mc.add_move(CompositeMove([e_del, e_ins] if rs.rand() < 0.5 else [e_ins, e_del]), criteria=GrandCanonicalCriteria(), name="swap")
            mc.add_move(e, name="exch", probability=0.5)
        if rs.rand() < 0.7 or coarse:
            d = RecDisp(lab.copy(), disp_op(rs, molecular))
            # a displacement move that groups the atoms more COARSELY than the exchange move (two exchangeable particles =
            # one rigid group): an accepted deletion may then remove part of a group, the rest keeps its label.  (Decided
            # by a generator of its own: the scenarios of the other runs stay what they were.)
            if coarse or (not molecular and not mix and np.random.RandomState((seed ^ 0x5EED) % (2**32)).rand() < 0.3):
                d.set_labels(np.where(lab >= 0, lab // (2 * mult), lab))
                sc.notes = [*getattr(sc, "notes", []), "coarse-displacement-groups"]
            attach_veto(sc, d, 0.3)
            if rs.rand() < 0.3 and not coarse:
                d.default_label = int(rs.choice([0, -1, 5]))
            r_ = rs.rand()
            if r_ < 0.25:
                # the SAME displacement move object under two entries (alone and doubled): every accepted exchange is still
                # announced to it once
                mc.add_move(d, criteria=CanonicalCriteria(), name="disp")
                mc.add_move(d * 2, criteria=CanonicalCriteria(), name="disp_twice", probability=0.5)
            else:
                mc.add_move(d if r_ < 0.7 else d * 2, criteria=CanonicalCriteria(), name="disp")
        if rs.rand() < 0.3:
            # one trial that displaces a particle AND exchanges one (a plain composite of a displacement and an exchange move)
            d3 = RecDisp(lab.copy(), disp_op(rs, molecular))
            e3 = RecExch(lab.copy(), Translation() if not molecular else TranslationRotation())
            mc.add_move((d3 + e3) if rs.rand() < 0.5 else (e3 + d3), criteria=GrandCanonicalCriteria(), name="disp_exch")
        if mix_del2 or (not mix and rs.rand() < 0.15):
            # one trial in which TWO exchange moves delete (a hand-made generic composite), optionally followed by a
            # displacement: the second deletion and the displacement address atoms that have moved up
            from quansino.moves.composite import CompositeMove

            ea = RecExch(lab.copy(), Translation() if not molecular else TranslationRotation(), bias_towards_insert=0.0)
            eb = RecExch(lab.copy(), Translation() if not molecular else TranslationRotation(), bias_towards_insert=float(rs.choice([0.0, 0.0, 0.5])) if not mix else 0.0)
            parts = [ea, eb]
            if rs.rand() < (0.8 if mix else 0.5):
                parts.append(RecDisp(lab.copy(), disp_op(rs, molecular)))
            mc.add_move(CompositeMove(parts), criteria=GrandCanonicalCriteria(), name="del2", probability=0.7)
    elif fam == "gcdrain":
        # a grand-canonical run that tends to EMPTY the system (deletions favoured), with a composite displacement move
        # that is called before and after the last movable particle has gone, and a single one
        n0 = int(rs.randint(1, 3))
        tmpl = Atoms("Cu", positions=[[0, 0, 0]])
        atoms = make_atoms(rs, n0, f"Cu{n0}", extras=False)
        atoms.calc = pick_calc(rs, atoms, allow=("harm", "pair"))
        mc = GrandCanonical(atoms, exchange_atoms=tmpl, temperature=3000.0, chemical_potential=float(rs.choice([-3.0, -6.0])), number_of_exchange_particles=n0,
                            max_cycles=int(rs.randint(2, 5)), seed=sim_seed, logfile=maybe_logfile(rs))
        lab = np.arange(n0)
        e = RecExch(lab.copy(), Translation(), bias_towards_insert=float(rs.choice([0.1, 0.25])))
        mc.add_move(e, name="exch", probability=0.5)
        d = RecDisp(lab.copy(), disp_op(rs, False))
        attach_veto(sc, d, 0.2)
        mc.add_move(d * int(rs.randint(2, 4)), criteria=CanonicalCriteria(), name="disp", probability=0.4)
        d1 = RecDisp(lab.copy(), Ball(0.3))
        mc.add_move(d1, criteria=CanonicalCriteria(), name="disp1", probability=0.1)
    else:
        raise ValueError(fam)
    sc.mc = mc
    calc = mc.atoms.calc
    sc.fresh = lambda c=calc: fresh_like(c)
    sc.meta["restarted"] = False
    sc.edit, sc.steps2 = None, 0
    if fam in ("canon", "hmc", "npt") and (rs.rand() < 0.3 or noreset):
        # a run in two legs: between them the user moves the system by hand (rigid shift; in the cell-changing ensembles
        # also a rescaling of the cell together with the atoms)
        shift = rs.uniform(0.2, 0.6, 3)
        scale = float(rs.choice([0.97, 1.04])) if fam == "npt" else None

        def edit(mc_, shift=shift, scale=scale):
            a_ = mc_.atoms
            if scale is not None:
                a_.set_cell(a_.cell.array * scale, scale_atoms=True)
            a_.positions = a_.positions + shift

        sc.edit = edit
        sc.steps2 = int(rs.randint(2, 6))
        sc.meta["edited_between_runs"] = True
        sc.reset_energy = not noreset
    if rs.rand() < 0.25 and allow_restart and not noreset:
        try:
            restart_prologue(sc, warm=int(rs.randint(0, 3)))
        except Exception:  # noqa: BLE001
            # the unrecorded warm-up steps ran into a recorded finding that corrupts the run (e.g. two particles inserted by
            # one trial share a label and are then deleted twice): record this scenario from its start instead
            return build(seed, family, allow_restart=False)
    sc.meta["calc"] = type(calc).__name__
    sc.meta["calcStyle"] = getattr(calc, "style", "?")
    sc.steps = int(rs.randint(3, 9))
    if coarse:
        sc.steps = 25
    return sc
