"""C06 -- same seed, same trajectory (spec/Determinism.tla, Determinism_Trace.tla).

For every driver x move table x seed: run A; re-seed and advance numpy's and Python's
global generators differently; run B with the same seed; run C with another seed.  Every
entry point of the global generators is wrapped, so any use is an event whatever their state.
The per-step tokens of the three runs are judged by TLC."""

from __future__ import annotations

import hashlib
import io
import json
import os
import random
import shutil
import tempfile
import warnings

import numpy as np
from ase import Atoms

from calcs import Harmonic, PairRebuild
from common import Report
from scripted_rng import ScriptedGenerator
from tlc import run_tlc

GLOBAL_CALLS = []

NP_NAMES = ["rand", "randn", "random", "random_sample", "ranf", "sample", "uniform", "normal", "standard_normal", "choice", "randint", "permutation", "shuffle", "exponential", "bytes", "get_state"]
PY_NAMES = ["random", "uniform", "gauss", "normalvariate", "choice", "choices", "randint", "randrange", "shuffle", "sample", "getrandbits", "betavariate", "expovariate", "triangular"]


class GlobalSpy:
    """wraps the module-level entry points of numpy.random and random for the duration of a run"""

    def __enter__(self):
        self.saved = []
        for mod, names in ((np.random, NP_NAMES), (random, PY_NAMES)):
            for n in names:
                if hasattr(mod, n):
                    orig = getattr(mod, n)
                    self.saved.append((mod, n, orig))

                    def wrap(*a, _o=orig, _n=f"{mod.__name__}.{n}", **k):
                        GLOBAL_CALLS.append(_n)
                        return _o(*a, **k)

                    setattr(mod, n, wrap)
        orig_default = np.random.default_rng
        self.saved.append((np.random, "default_rng", orig_default))

        def default_rng(seed=None, _o=orig_default):
            if seed is None:
                GLOBAL_CALLS.append("numpy.random.default_rng(None)")
            return _o(seed)

        np.random.default_rng = default_rng
        return self

    def __exit__(self, *a):
        for mod, n, orig in self.saved:
            setattr(mod, n, orig)


TABLES = {
    "Canonical": ["rotation_molecule", "box_x2", "compop_sched", "ball"],
    "HamiltonianCanonical": ["ham"],
    "Isobaric": ["cell_iso_disp", "cell_shape"],
    "Isotension": ["cell_aniso"],
    "GrandCanonical": ["exch_disp", "exch_x2_molecular"],
    "ForceBias": ["fb"],
    "AdaptiveForceBias": ["afb"],
}


def build(driver, table, seed, logfile):
    from quansino.integrators.displacement import Verlet
    from quansino.mc.canonical import Canonical, HamiltonianCanonical
    from quansino.mc.criteria import CanonicalCriteria, GrandCanonicalCriteria
    from quansino.mc.fbmc import AdaptiveForceBias, ForceBias
    from quansino.mc.gcmc import GrandCanonical
    from quansino.mc.isobaric import Isobaric
    from quansino.mc.isotension import Isotension
    from quansino.moves.cell import CellMove
    from quansino.moves.displacement import DisplacementMove, HamiltonianDisplacementMove
    from quansino.moves.exchange import ExchangeMove
    from quansino.operations.cell import AnisotropicDeformation, IsotropicDeformation, ShapeDeformation
    from quansino.operations.displacement import Ball, Box, Rotation, Sphere, Translation, TranslationRotation

    rs = np.random.RandomState(4)
    molecular = table in ("rotation_molecule", "exch_x2_molecular")
    if molecular:
        pos = []
        for i in range(2):
            p = rs.rand(3) * 4 + 2
            pos += [p, p + [0, 0, 1.13]]
        atoms = Atoms("COCO", positions=pos, cell=[8, 8.5, 9], pbc=True)
    else:
        atoms = Atoms("Cu4", positions=rs.rand(4, 3) * 4 + 2, cell=[8, 8.5, 9], pbc=True)
    atoms.calc = PairRebuild(a=0.4, rc=3.5) if molecular else Harmonic(k=0.2, centers=atoms.positions + 0.3, eps=0.03, cellk=0.0004)
    kw = dict(seed=seed, logfile=logfile, logging_interval=1)
    if driver == "Canonical":
        mc = Canonical(atoms, temperature=900.0, max_cycles=3, **kw)
        if table == "ball":
            mc.add_move(DisplacementMove(np.arange(4), Ball(0.3)))
        elif table == "box_x2":
            mc.add_move(DisplacementMove(np.arange(4), Box(0.3)) * 2, criteria=CanonicalCriteria())
        elif table == "rotation_molecule":
            mc.add_move(DisplacementMove([0, 0, 1, 1], TranslationRotation()), name="tr")
            mc.add_move(DisplacementMove([0, 0, 1, 1], Rotation()), name="rot", probability=0.5)
        else:
            mc.add_move(DisplacementMove(np.arange(4), Sphere(0.2) + Ball(0.1)), name="a", probability=0.7, minimum_count=1)
            mc.add_move(DisplacementMove(np.arange(4), Box(0.4)), name="b", interval=2, probability=0.3, minimum_count=1)
    elif driver == "HamiltonianCanonical":
        mc = HamiltonianCanonical(atoms, temperature=900.0, max_cycles=2, **kw)
        mc.add_move(HamiltonianDisplacementMove(operation=Verlet(dt=2.0, max_steps=3)))
    elif driver in ("Isobaric", "Isotension"):
        extra = {"external_stress": np.diag([0.003, -0.002, 0.001])} if driver == "Isotension" else {}
        mc = (Isobaric if driver == "Isobaric" else Isotension)(atoms, temperature=2000.0, pressure=0.003, max_cycles=2, **extra, **kw)
        op = {"cell_iso_disp": IsotropicDeformation(0.04), "cell_shape": ShapeDeformation(0.03), "cell_aniso": AnisotropicDeformation(0.03)}[table]
        mc.add_move(CellMove(op), name="cell")
        if table == "cell_iso_disp":
            mc.add_move(DisplacementMove(np.arange(4), Ball(0.3)), name="disp")
    elif driver == "GrandCanonical":
        tmpl = Atoms("CO", positions=[[0, 0, 0], [0, 0, 1.13]]) if molecular else Atoms("Cu", positions=[[0, 0, 0]])
        lab = np.array([0, 0, 1, 1]) if molecular else np.arange(4)
        mc = GrandCanonical(atoms, exchange_atoms=tmpl, temperature=2500.0, chemical_potential=-3.1, number_of_exchange_particles=len(set(lab)), max_cycles=3, **kw)
        if molecular:
            mc.add_move(ExchangeMove(lab.copy(), TranslationRotation()) * 2, criteria=GrandCanonicalCriteria())
        else:
            mc.add_move(ExchangeMove(lab.copy(), Translation()), name="exch")
            mc.add_move(DisplacementMove(lab.copy(), Ball(0.3)), name="disp")
    elif driver == "ForceBias":
        mc = ForceBias(atoms, delta=0.1, temperature=900.0, **kw)
    else:
        mc = AdaptiveForceBias(atoms, min_delta=0.05, max_delta=0.2, temperature=900.0, **kw)
    return mc


def run_one(driver, table, seed, steps, interner):
    """-> run record {seed, used, toks, glob, draws}"""
    log = io.StringIO()
    del GLOBAL_CALLS[:]
    with GlobalSpy():
        mc = build(driver, table, seed, log)
        spy = ScriptedGenerator(0)
        spy.bit_generator.state = mc._rng.bit_generator.state  # pass-through logger on the simulation's own stream
        mc._rng = spy
        if hasattr(mc, "context"):
            mc.context.rng = spy
        toks = []
        is_mc = hasattr(mc, "moves")
        for st in mc.irun(steps):
            if is_mc:
                for _ in st:
                    pass
            a = mc.atoms
            h = hashlib.sha1()
            h.update(a.positions.tobytes() + np.asarray(a.cell.array).tobytes() + a.numbers.tobytes() + a.get_momenta().tobytes())
            if is_mc:
                h.update(repr([(str(n), v) for n, v in mc.move_history]).encode())
            toks.append(h.hexdigest())
        toks.append(hashlib.sha1(log.getvalue().encode()).hexdigest())
        used = mc._seed
        nglob = len(GLOBAL_CALLS)
        ndraws = len(spy.log)
        mc.close()
    return {"seed": str(seed), "used": str(used), "raw": list(toks), "toks": [interner.setdefault(t, len(interner) + 1) for t in toks], "glob": nglob, "draws": ndraws, "global_calls": list(GLOBAL_CALLS[:5])}


def run(tier: str) -> int:
    rep = Report("C06", tier, "model_checking")
    warnings.simplefilter("ignore")
    r = run_tlc("Determinism", "MC_Determinism.cfg", workers=4, timeout=600)
    if not r.ok:
        if r.invariant_violated:
            rep.violation(f"model:{r.invariant_violated[0]}", f"TLC: {r.invariant_violated[0]} violated in Determinism.tla", {"tlc": r.out[-2000:]})
        else:
            rep.error(f"TLC failed on Determinism: {r.out[-1200:]}")
    rs = np.random.RandomState(rep.seed % 2**32)
    seeds = [0, 1, 42, 2**32 - 1, 2**32 + 7, 2**63 + 5, int(rs.randint(2, 2**31))]
    if tier == "thorough":
        seeds += [2**33 + 7, 2**64 - 1, 12345678901234567890 % 2**64, 2**40, int(rs.randint(2, 2**31))]
    steps = 5 if tier == "quick" else 25
    exps = []
    interner: dict = {}
    for driver, tables in TABLES.items():
        for table in (tables if tier == "thorough" else tables[:3]):
            for si, seed in enumerate(seeds):
                if tier == "quick" and si >= 3 and (hash((driver, table)) + si) % 3:
                    continue
                try:
                    np.random.seed(1)
                    random.seed(1)
                    # "the same integer seed": also when it is spelled as a numpy integer (an element of a seed array, the
                    # output of SeedSequence.generate_state) -- run A gets the numpy spelling, run B the Python int
                    seed_a = (np.uint64(seed) if seed >= 2**63 else np.int64(seed)) if si % 2 == 1 else seed
                    A = run_one(driver, table, seed_a, steps, interner)
                    A["seed"] = str(seed)
                    np.random.seed(987654)
                    random.seed("another state")
                    np.random.rand(int(rs.randint(1, 50)))
                    [random.random() for _ in range(int(rs.randint(1, 50)))]
                    B = run_one(driver, table, seed, steps, interner)
                    # a different seed: also one that agrees with `seed` modulo 2**32 (seeds are not folded)
                    other = seed + 2**32 if si % 2 else seed + 1
                    C = run_one(driver, table, other, steps, interner)
                except Exception as ex:  # noqa: BLE001
                    rep.violation(f"raise:{driver}:{type(ex).__name__}", f"{driver}/{table} with seed {seed} raised {type(ex).__name__}: {str(ex)[:160]}", {"driver": driver, "table": table, "seed": seed})
                    continue
                exps.append({"driver": driver, "table": table, "A": A, "B": B, "C": C})
                rep.count((driver, table, seed), nontrivial=A["draws"] > 0)
                if len(rep.samples) < 4 and si == 0:
                    rep.sample({"driver": driver, "table": table, "seed": seed, "tokens_A": A["toks"], "tokens_B": B["toks"], "tokens_C": C["toks"], "own_draws": A["draws"], "global_calls": A["glob"]})
    # ---- the other process-wide source of "randomness": the interpreter's string-hash salt.  The same seed in a FRESH
    # interpreter with another PYTHONHASHSEED (and other global generator states) must give the same tokens. ----------
    import subprocess
    import sys

    multi = [("Canonical", "compop_sched"), ("Canonical", "rotation_molecule"), ("Isobaric", "cell_iso_disp"), ("GrandCanonical", "exch_disp")]
    salts = ["1", "2"] if tier == "quick" else ["1", "2", "3", "77", "random"]
    jobs = []
    for driver, table in multi:
        for seed in ([0] if tier == "quick" else [0, 42, 2**32 + 7]):
            ref = next((e["A"] for e in exps if e["driver"] == driver and e["table"] == table and e["A"]["seed"] == str(seed)), None)
            if ref is None:
                try:
                    ref = run_one(driver, table, seed, steps, interner)
                except Exception:  # noqa: BLE001
                    continue
            for salt in salts:
                env = dict(os.environ, PYTHONHASHSEED=salt)
                pr = subprocess.Popen([sys.executable, os.path.abspath(__file__), driver, table, str(seed), str(steps), salt], env=env, stdout=subprocess.PIPE, stderr=subprocess.PIPE, text=True)
                jobs.append((driver, table, seed, salt, ref, pr))
    for driver, table, seed, salt, ref, pr in jobs:
        out, err = pr.communicate(timeout=600)
        rep.count((driver, table, seed, "salt", salt), nontrivial=True)
        try:
            raw = json.loads(out.strip().splitlines()[-1])["raw"]
        except Exception:  # noqa: BLE001
            rep.error(f"hash-salt subprocess failed for {driver}/{table}: {err[-400:]}")
            continue
        if raw != ref["raw"]:
            k = next((i for i, (a, b) in enumerate(zip(raw, ref["raw"])) if a != b), min(len(raw), len(ref["raw"])))
            rep.violation(f"same-seed-differs:other-interpreter-hash-salt:{driver}", f"{driver}/{table} seed {seed}: a fresh interpreter with PYTHONHASHSEED={salt} gives a different trajectory from step {k} on (same seed, same atoms, same configuration)", {"driver": driver, "table": table, "seed": seed, "salt": salt})
    rep.add(hash_salt_runs=len(jobs))
    tmp = tempfile.mkdtemp(prefix="c06_")
    try:
        tf = os.path.join(tmp, "exps.json")
        json.dump(exps, open(tf, "w"))
        rt = run_tlc("Determinism_Trace", "Determinism_Trace.cfg", workers=1, env={"TRACE_FILE": tf}, timeout=900)
    finally:
        shutil.rmtree(tmp, ignore_errors=True)
    if rt.rc != 0:
        rep.error(f"TLC trace validation (Determinism_Trace) failed: {rt.out[-1200:]}")
    for line in rt.out.splitlines():
        if line.strip().startswith('"@@'):
            d = json.loads(json.loads(line.strip())[2:])
            e = exps[d["idx"] - 1]
            for w in d["what"]:
                seed = int(e["A"]["seed"])
                sclass = "seed0" if seed == 0 else ("seed>=2**32" if seed >= 2**32 else "small-seed")
                extra = ""
                if w == "global-generator-used":
                    extra = ":" + ",".join(sorted(set(e["A"]["global_calls"] + e["B"]["global_calls"])))[:80]
                rep.violation(f"{w}:{e['driver']}:{sclass}{extra}", f"{e['driver']}/{e['table']} seed {seed}: {w} (A {e['A']['toks'][:4]}.., B {e['B']['toks'][:4]}.., C seed {e['C']['seed']} {e['C']['toks'][:4]}..; seed used {e['A']['used']}; global calls {e['A']['global_calls']})", {"experiment": e})
    rep.add(states=r.distinct + rt.distinct, transitions=r.generated + rt.generated, traces_validated_against_impl=3 * len(exps), experiments=len(exps),
            rule="experiment = (driver in Canonical/HamiltonianCanonical/Isobaric/Isotension/GrandCanonical/ForceBias/AdaptiveForceBias, move table, seed in {0, 1, 42, 2^32-1, 2^32+7, 2^63+5, random, ...}): run A, perturb the global generators, run B (same seed), run C (seed+1 or seed+2^32); one token per step from positions, cell, numbers, momenta, move history, plus the log bytes; every entry point of numpy.random / random is wrapped; TLC judges A = B, C != A, zero global events, seed honoured, own draws > 0; non-trivial = the run drew from its own generator")
    rep.assumptions += ["a use of a global generator is detected at the entry points of the numpy.random and random modules (module-level functions, default_rng() without a seed)"]
    return rep.finish()


if __name__ == "__main__":
    # one run in this (fresh) interpreter: driver table seed steps salt -> raw tokens
    import sys

    warnings.simplefilter("ignore")
    sys.path.insert(0, os.path.dirname(os.path.abspath(__file__)))
    import quansino.mc  # noqa: F401

    d, t, sd, st, salt = sys.argv[1:6]
    np.random.seed(abs(hash(salt)) % 2**31)
    random.seed(salt)
    r_ = run_one(d, t, int(sd), int(st), {})
    print(json.dumps({"raw": r_["raw"]}))
