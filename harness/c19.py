"""C19 -- reinsert_atoms inverts deletion; search_molecules partitions by bonds.
TLC enumerates every case up to MaxN atoms (spec/AtomsOps.tla) and exports the
expected results; every case is replayed on real ase.Atoms objects."""

from __future__ import annotations

import json
import os
import shutil
import tempfile

import numpy as np
from ase import Atoms

from common import Report
from tlc import run_tlc

SPECIES = ["H", "He", "Li", "Be", "B", "C", "N", "O"]
FILTERS = {"none": None, "one": 1, "two": 2, "two_three": (2, 3), "upto_two": (0, 2)}


def rich_atoms(n, rs, ident_tags=True):
    a = Atoms("".join(SPECIES[i % len(SPECIES)] for i in range(n)), positions=rs.rand(n, 3) * 5, cell=[6, 7, 8], pbc=True)
    a.set_tags(np.arange(1, n + 1) if ident_tags else rs.randint(0, 9, n))
    a.set_momenta(rs.randn(n, 3))
    a.set_initial_charges(rs.randn(n))
    a.set_masses(rs.rand(n) * 50 + 1)
    a.set_array("custom2d", rs.rand(n, 2))
    a.set_array("flag8", rs.randint(-100, 100, n).astype(np.int8))
    a.set_array("wide", rs.randint(0, 2**40, n).astype(np.int64))
    return a


def same_arrays(a, b):
    if set(a.arrays) != set(b.arrays):
        return f"array set differs: {sorted(a.arrays)} vs {sorted(b.arrays)}"
    for k in a.arrays:
        x, y = a.arrays[k], b.arrays[k]
        if x.dtype != y.dtype:
            return f"dtype of '{k}' {y.dtype} != {x.dtype}"
        if x.shape != y.shape or x.tobytes() != y.tobytes():
            return f"array '{k}' not restored"
    return None


def realise_graph(n, edges, rs):
    """atoms with one species per vertex and a per-pair cutoff dict realising exactly `edges`"""
    while True:  # all pair distances in (0.3, 1.4): above the 'too short' cutoff, below the bonding one
        pos = 2.0 + rs.rand(n, 3) * 0.8
        dm = np.linalg.norm(pos[:, None] - pos[None], axis=2) + np.eye(n)
        if dm.min() > 0.3:
            break
    a = Atoms("".join(SPECIES[i] for i in range(n)), positions=pos, cell=[12, 12, 12], pbc=bool(rs.rand() < 0.5))
    cut = {}
    es = {tuple(e) for e in edges}
    for i in range(n):
        for j in range(i + 1, n):
            if (i + 1, j + 1) in es:
                cut[(SPECIES[i], SPECIES[j])] = 3.0
            elif rs.rand() < 0.5:
                cut[(SPECIES[i], SPECIES[j])] = 0.05  # present but far too short
    if not cut:
        cut[(SPECIES[0], SPECIES[0])] = 0.05  # ASE cannot take an empty dict
    return a, cut


def union_find_labels(n, pairs):
    parent = list(range(n))

    def find(x):
        while parent[x] != x:
            parent[x] = parent[parent[x]]
            x = parent[x]
        return x

    for i, j in pairs:
        parent[find(i)] = find(j)
    groups = {}
    for i in range(n):
        groups.setdefault(find(i), []).append(i)
    return sorted(sorted(g) for g in groups.values())


def check_search(rep, atoms, cutoff, req, default, want_groups, ctx):
    from quansino.utils.atoms import search_molecules

    n = len(atoms)
    ctx = dict(ctx, positions=atoms.positions.tolist(), pbc=atoms.pbc.tolist(), cell=np.asarray(atoms.cell.array).tolist(), symbols=str(atoms.symbols),
               cutoff={f"{k[0]}-{k[1]}": v for k, v in cutoff.items()} if isinstance(cutoff, dict) else cutoff, required_size=req)
    kw = {}
    if req is not None:
        kw["required_size"] = req
    passed = None
    if default is not None:
        # the user's own array object is handed over, and it has been used before: for an earlier search of the same
        # system that admitted components of every size
        passed = default.copy()
        kw["default_array"] = passed
        try:
            search_molecules(atoms, cutoff, default_array=passed)
        except Exception:  # noqa: BLE001
            pass
    try:
        lab = np.asarray(search_molecules(atoms, cutoff, **kw))
    except Exception as ex:  # noqa: BLE001
        dkind = "none" if default is None else "array"
        rep.violation(f"search:raise:default={dkind}:{type(ex).__name__}", f"search_molecules raised {type(ex).__name__}: {ex} ({ctx})", ctx)
        return
    if lab.shape != (n,):
        rep.violation("search:shape", f"label array has shape {lab.shape}, expected ({n},)", ctx)
        return
    if passed is not None and not np.array_equal(passed, default):
        rep.violation("search:default-array-overwritten", f"search_molecules wrote into the caller's default array: {passed.tolist()} (was {default.tolist()}) ({ctx['what']})", ctx)
        return
    dflt = np.full(n, -1) if default is None else default
    grouped = {i for g in want_groups for i in g}
    for g in want_groups:
        ls = {int(lab[i]) for i in g}
        if len(ls) != 1 or min(ls) < 0:
            rep.violation("search:component-not-one-nonneg-label", f"admitted component {g} got labels {[int(lab[i]) for i in g]} ({ctx['what']})", ctx)
            return
    seen = {}
    for g in want_groups:
        l0 = int(lab[g[0]])
        if l0 in seen:
            rep.violation("search:two-components-share-label", f"components {seen[l0]} and {g} share label {l0} ({ctx['what']})", ctx)
            return
        seen[l0] = g
    for i in range(n):
        if i not in grouped and int(lab[i]) != int(dflt[i]):
            rep.violation("search:unadmitted-atom-not-default", f"atom {i} is in no admitted component but got label {int(lab[i])}, default {int(dflt[i])} ({ctx['what']})", ctx)
            return


class _Reject:
    def evaluate(self, context):
        context.atoms.get_potential_energy()
        return False

    def to_dict(self):
        return {"name": "_Reject"}


def swap_layer(rep, rs, ncases):
    """Delete + re-insert as the library itself composes them (AtomsOps.tla: Reinsert after Delete, with atoms
    APPENDED in between): one grand-canonical trial that deletes a chosen particle AND inserts a new one is rejected;
    the atoms must be the original ones (order, every per-atom array and dtype)."""
    from calcs import Harmonic
    from quansino.mc.gcmc import GrandCanonical
    from quansino.moves.composite import CompositeMove
    from quansino.moves.exchange import ExchangeMove
    from quansino.operations.displacement import Translation

    done = 0
    for k in range(ncases):
        n = int(rs.randint(2, 9))
        atoms = rich_atoms(n, rs, ident_tags=False)
        atoms.set_cell([9.0, 9.5, 10.0])
        atoms.pbc = True
        size = int(rs.choice([1, 1, 2]))
        lab = (np.arange(n) // size).astype(int)
        if k % 3 == 0:
            lab = lab[rs.permutation(n)]  # a particle's atoms need not be contiguous
        atoms.calc = Harmonic(k=0.1, centers=atoms.positions.copy(), eps=0.01)
        tmpl = rich_atoms(size, rs, ident_tags=False)
        orig = atoms.copy()
        target = int(rs.choice(np.unique(lab)))
        order = k % 2  # delete-then-insert or insert-then-delete inside the one trial
        ctx = {"what": f"n={n} labels={lab.tolist()} delete label {target}, template of {size} atom(s), {'delete+insert' if order == 0 else 'insert+delete'}", "n": n, "labels": lab.tolist(), "target": target}
        try:
            mc = GrandCanonical(atoms, exchange_atoms=tmpl, temperature=300.0, chemical_potential=0.0, number_of_exchange_particles=len(np.unique(lab)), max_cycles=1, seed=int(rs.randint(1, 10**6)))
            e_del = ExchangeMove(lab.copy(), Translation(), bias_towards_insert=0.0)
            e_ins = ExchangeMove(lab.copy(), Translation(), bias_towards_insert=1.0)
            e_del.to_delete_label = target
            if k % 4 == 3 and len(np.unique(lab)) >= 2:
                # a composite exchange move deleting two particles: the deleted indices come in label-choice order
                comp = ExchangeMove(lab.copy(), Translation()) * 2
                comp.bias_towards_insert = 0.0
                mc.add_move(comp, criteria=_Reject(), name="swap")
                ctx["what"] = ctx["what"].replace("delete label", "composite deletion of two particles; (ignored) label")
            else:
                mc.add_move(CompositeMove([e_del, e_ins] if order == 0 else [e_ins, e_del]), criteria=_Reject(), name="swap")
            mc.run(1)
            hist = mc.move_history[-1][1] if mc.move_history else None
            err = same_arrays(orig, mc.atoms)
        except Exception as ex:  # noqa: BLE001
            err = f"raised {type(ex).__name__}: {ex}"
            hist = False
        rep.count(("swap", k), nontrivial=True)
        done += 1
        if hist is not False:
            rep.error(f"swap layer: the trial was not rejected (history {hist!r})")
            continue
        if err:
            rep.violation(f"reinsert:rejected-delete-and-insert:{'del+ins' if order == 0 else 'ins+del'}:{err.split(' ')[0]}", f"after a rejected trial that deleted one particle and inserted another the atoms are not the original ones: {err} ({ctx['what']})", ctx)
    return done


def run(tier: str) -> int:
    from quansino.utils.atoms import reinsert_atoms

    rep = Report("C19", tier, "model_checking")
    rs = np.random.RandomState(rep.seed % 2**32)
    maxn = 4 if tier == "quick" else 5
    tmp = tempfile.mkdtemp(prefix="c19_")
    try:
        cfg = os.path.join(tmp, "ao.cfg")
        txt = open(os.path.join(os.path.dirname(__file__), "..", "spec", "MC_AtomsOps.cfg")).read().replace("MaxN = 4", f"MaxN = {maxn}")
        open(cfg, "w").write(txt)
        out = os.path.join(tmp, "cases.ndjson")
        r = run_tlc("AtomsOps", cfg, workers=8, env={"AO_OUT": out}, timeout=1200)
        if not r.ok:
            if r.invariant_violated:
                rep.violation(f"model:{r.invariant_violated[0]}", f"TLC: {r.invariant_violated[0]} violated in AtomsOps.tla", {"tlc": r.out[-2000:]})
            else:
                rep.error(f"TLC failed on AtomsOps: {r.out[-1500:]}")
            return rep.finish()
        cases = [json.loads(l) for l in open(out)]
    finally:
        shutil.rmtree(tmp, ignore_errors=True)
    nre = nse = 0
    for c in cases:
        if c["kind"] == "reinsert":
            nre += 1
            n, I = c["n"], [i - 1 for i in c["I"]]
            rep.count(("re", n, tuple(I)), nontrivial=len(I) > 0)
            if nre % 40 == 1:
                rep.sample(c)
            atoms = rich_atoms(n, rs)
            orig = atoms.copy()
            ctx = {"what": f"n={n} indices={I}", "case": c}
            try:
                if I:
                    deleted = atoms[I]
                    del atoms[I]
                else:
                    deleted = atoms[[]]
                got = [int(t) for t in atoms.get_tags()]
                if got != c["after_delete"]:
                    rep.error(f"harness: ASE deletion gave {got}, spec {c['after_delete']}")
                if I:
                    reinsert_atoms(atoms, deleted, I)
            except Exception as ex:  # noqa: BLE001
                rep.violation(f"reinsert:raise:{type(ex).__name__}", f"delete+reinsert raised {type(ex).__name__}: {ex} ({ctx['what']})", ctx)
                continue
            if [int(t) for t in atoms.get_tags()] != c["after_reinsert"]:
                kind = "sorted" if I == sorted(I) else "unsorted"
                rep.violation(f"reinsert:order:{kind}", f"after reinsert the atom order is {[int(t) for t in atoms.get_tags()]}, expected {c['after_reinsert']} ({ctx['what']})", ctx)
                continue
            err = same_arrays(orig, atoms)
            if err:
                kind = "sorted" if I == sorted(I) else "unsorted"
                rep.violation(f"reinsert:arrays:{kind}:{err.split(' ')[0]}", f"{err} ({ctx['what']})", ctx)
        else:
            nse += 1
            n = c["n"]
            groups = [[i - 1 for i in g] for g in c["groups"]]
            atoms, cut = realise_graph(n, c["edges"], rs)
            defaults = [None, np.full(n, -1), np.full(n, -7), -np.arange(1, n + 1)]
            d = defaults[nse % len(defaults)]
            rep.count(("se", n, json.dumps(c["edges"]), c["filter"], nse % len(defaults)), nontrivial=len(c["edges"]) > 0)
            if nse % 400 == 1:
                rep.sample(c)
            check_search(rep, atoms, cut, FILTERS[c["filter"]], d, groups,
                         {"what": f"n={n} edges={c['edges']} filter={c['filter']} default={'None' if d is None else d.tolist()}", "case": c})
    # ---- beyond the exhaustive bound: random index lists and random geometries with a scalar cutoff
    nrand = 150 if tier == "quick" else 3000
    from ase.neighborlist import neighbor_list

    for k in range(nrand):
        n = int(rs.randint(2, 13))
        m = int(rs.randint(1, n + 1))
        I = [int(i) for i in rs.permutation(n)[:m]]
        if k % 3 == 0:
            # the same atoms addressed from the end (negative indices are ordinary indices)
            I = [i - n if rs.rand() < 0.6 else i for i in I]
            if k % 6 == 0:
                I = I[:1]
        atoms = rich_atoms(n, rs, ident_tags=False)
        orig = atoms.copy()
        rep.count(("rand-re", k))
        try:
            deleted = atoms[I]
            del atoms[I]
            reinsert_atoms(atoms, deleted, I)
            err = same_arrays(orig, atoms)
        except Exception as ex:  # noqa: BLE001
            err = f"raised {type(ex).__name__}: {ex}"
        if err:
            rep.violation(f"reinsert:random:{'negative-index' if min(I) < 0 else ('sorted' if I == sorted(I) else 'unsorted')}", f"{err} (n={n} indices={I})", {"n": n, "I": I})
        # scalar cutoff on a random geometry, independent union-find over minimum-image distances
        n = int(rs.randint(1, 11))
        L = 6.0
        a = Atoms("H" * n, positions=rs.rand(n, 3) * L, cell=[L, L, L], pbc=True)
        rc = float(rs.choice([0.4, 0.8, 1.2]))
        dm = a.get_all_distances(mic=True)
        pairs = [(i, j) for i in range(n) for j in range(i + 1, n) if dm[i, j] < 2 * rc]  # scalar cutoff = radius per atom
        ii, jj = neighbor_list("ij", a, cutoff=[rc] * n, self_interaction=False)
        if {(min(x, y), max(x, y)) for x, y in zip(ii, jj)} != set(pairs):
            continue  # periodic images closer than the minimum image convention: outside this oracle
        comps = union_find_labels(n, pairs)
        fkey = list(FILTERS)[k % len(FILTERS)]
        req = FILTERS[fkey]
        lo, hi = (0, n) if req is None else ((req, req) if isinstance(req, int) else req)
        want = [g for g in comps if lo <= len(g) <= hi]
        d = [None, np.full(n, -3)][k % 2]
        rep.count(("rand-se", k))
        check_search(rep, a, [rc] * n, req, d, want, {"what": f"random n={n} rc={rc} filter={fkey}", "positions": a.positions.tolist()})
        # the same bonds through ONE global cutoff distance (a plain float, and an int where 2 rc is one): bonds through
        # the periodic faces of the cell count as they do for radii
        rep.count(("rand-se-global", k))
        check_search(rep, a, 2 * rc, req, d, want, {"what": f"random n={n} global cutoff {2 * rc} filter={fkey}", "positions": a.positions.tolist()})
        if k % 4 == 0:
            pairs2 = [(i, j) for i in range(n) for j in range(i + 1, n) if dm[i, j] < 2]
            i2, j2 = neighbor_list("ij", a, cutoff=2, self_interaction=False)
            if {(min(x, y), max(x, y)) for x, y in zip(i2, j2)} == set(pairs2):
                comps2 = union_find_labels(n, pairs2)
                check_search(rep, a, 2, req, d, [g for g in comps2 if lo <= len(g) <= hi], {"what": f"random n={n} global integer cutoff 2 filter={fkey}", "positions": a.positions.tolist()})
    nswap = swap_layer(rep, rs, 60 if tier == "quick" else 600)
    rep.add(rejected_delete_and_insert_trials=nswap)
    rep.add(states=r.distinct, transitions=r.generated, traces_validated_against_impl=nre + nse, exhaustive=True, reinsert_cases=nre, search_cases=nse, random_cases=2 * nrand,
            rule=f"TLC enumerates every index sequence (all subsets in all orders) of sequences of length <= {maxn} and every graph on <= {maxn} vertices x 5 size filters; each case is replayed on ase.Atoms carrying tags, momenta, charges, masses, float (N,2), int8 and int64 arrays / realised geometrically with one species per vertex and a per-pair cutoff dict, default arrays cycling through None, all -1, all -7, distinct negatives; non-trivial = non-empty index list / non-empty edge set; plus {nrand} random larger cases of each kind (scalar cutoff vs independent union-find)")
    rep.assumptions += ["deleted atoms are obtained as the context does: deleted = atoms[I]; del atoms[I]", "label values themselves are free: only 'same non-negative label <=> same admitted component' and 'others at the default' are checked"]
    return rep.finish()
