"""A numpy Generator that logs every draw and can be scripted.

Subclass of numpy.random.Generator around a real PCG64: unscripted draws are
the real generator's.  Scripts are queues keyed by method name ("random",
"choice", "uniform"): the next call of that method returns the scripted value
instead of drawing (the underlying stream is still advanced by one draw of the
same method so that stream consumption stays comparable)."""

from __future__ import annotations

from collections import deque

import numpy as np


class ScriptedGenerator(np.random.Generator):
    def __new__(cls, seed=0):
        return super().__new__(cls, np.random.PCG64(seed))

    def __init__(self, seed=0):
        super().__init__(np.random.PCG64(seed))
        self.log: list = []
        self.scripts: dict[str, deque] = {}
        self._nested = 0  # numpy's weighted choice() calls self.random() internally: not a draw of the code under test

    def script(self, method, *values):
        self.scripts.setdefault(method, deque()).extend(values)

    def _take(self, method):
        q = self.scripts.get(method)
        if q:
            return True, q.popleft()
        return False, None

    def random(self, size=None, *a, **k):
        if self._nested:
            return super().random(size, *a, **k)
        real = super().random(size, *a, **k)
        hit, v = self._take("random")
        out = v if hit else real
        self.log.append(("random", None if size is None else tuple(np.atleast_1d(size)), out if np.isscalar(out) else None))
        return out

    def uniform(self, low=0.0, high=1.0, size=None):
        real = super().uniform(low, high, size)
        hit, v = self._take("uniform")
        out = v if hit else real
        self.log.append(("uniform", (float(np.min(low)), float(np.max(high))), None if size is None else tuple(np.atleast_1d(size))))
        return out

    def choice(self, a, size=None, replace=True, p=None, *args, **k):
        self._nested += 1
        try:
            real = super().choice(a, size, replace, p, *args, **k)
        finally:
            self._nested -= 1
        # scripts apply to weighted single choices only (the free-slot selection of a move name)
        if p is not None and size is None:
            hit, v = self._take("choice")
        elif p is None and size is None:
            hit, v = self._take("choice_u")  # unweighted single choice (a label among candidates)
        else:
            hit, v = False, None
        out = v if hit else real
        self.log.append(("choice", len(a) if hasattr(a, "__len__") else int(a), None if size is None else int(np.prod(size))))
        return out

    def standard_normal(self, size=None, *a, **k):
        real = super().standard_normal(size, *a, **k)
        hit, v = self._take("standard_normal")
        out = v if hit else real
        self.log.append(("standard_normal", None if size is None else tuple(np.atleast_1d(size)), None))
        return out
