"""C16 -- output files after every observer call and after a crash at any point.

(0) Files.tla: the abstract observer/crash process, exhaustive (TLC).
(A) Files_Trace.tla: operation logs recorded from the real Logger / TrajectoryObserver /
    RestartObserver of grand-canonical runs (the serialized state grows and shrinks) are
    replayed by TLC with the file semantics of Files.tla; TLC judges every possible crash
    content (disk + any prefix of the buffer) in every state and the disk content after
    every call.
(B1) the same crash contents materialised as bytes (incl. torn chunks) and handed to the
    real readers (log lines, ase.io.read, read_json + step lookup).
(B2) real files on disk, real CPython buffering: forked children that die (os._exit, no
    flush) before a chosen file operation; the parent reads what survived."""

from __future__ import annotations

import io
import json
import os
import re
import shutil
import tempfile
import warnings

import numpy as np
from ase import Atoms

from calcs import Harmonic
from common import Report
from tlc import run_tlc


class RecFile:
    """delegates to a real text file handle, records every file operation; can die before operation n"""

    def __init__(self, real, kill_at=None):
        self.real = real
        self.ops = []
        self.n = 0
        self.kill_at = kill_at
        self.dirty = False

    def _op(self, rec):
        self.n += 1
        if self.kill_at is not None and self.n == self.kill_at:
            os._exit(17)  # no flush, no atexit: what is on disk is what survives
        self.ops.append(rec)
        self.dirty = True

    def write(self, s):
        self._op(["w", s])
        return self.real.write(s)

    def flush(self):
        self._op(["f"])
        return self.real.flush()

    def seek(self, pos, *a):
        self._op(["s", pos])
        return self.real.seek(pos, *a)

    def truncate(self, *a):
        self._op(["t"])
        return self.real.truncate(*a)

    def tell(self):
        return self.real.tell()

    def seekable(self):
        return True

    def writable(self):
        return True

    def read(self, *a):
        return self.real.read(*a)

    def close(self):
        return self.real.close()

    @property
    def closed(self):
        return self.real.closed

    def mark_end(self, force=False):
        """force: the observer WAS called in this round (interval 1): a call that wrote nothing still counts as a call"""
        if self.dirty or force:
            self.ops.append(["end"])
            self.dirty = False

    def mark_fail(self):
        """the observer call in progress raised"""
        self.ops.append(["fail"])
        self.dirty = False


OLD_LOG = "# log of an earlier simulation\n     Class       Step   Epot[eV]\nGrandCanonical          0     -1.000\n"
OLD_TRAJ = '1\nLattice="8.0 0.0 0.0 0.0 8.0 0.0 0.0 0.0 8.0" Properties=species:S:1:pos:R:3 pbc="T T T"\nCu       1.00000000       1.00000000       1.00000000\n'


class Boom(RuntimeError):
    pass


def build(dirpath, mode, seed, kill=None, old=False, boom_at=None, drain=False, handle_mode=None):
    """GrandCanonical run writing log / trajectory / restart through instrumented handles on real files.
    old: the log and trajectory paths already hold the output of an earlier simulation ('a' mode appends to it);
    boom_at: a user-supplied log column (not the first one) raises at its boom_at-th evaluation;
    handle_mode: the mode in which the USER opened the handles, when it differs from the driver's logging_mode (an open
    handle is the user's: the driver's mode says how quansino opens PATHS, it gives no licence to empty a handle)"""
    from quansino.mc.gcmc import GrandCanonical
    from quansino.moves.displacement import DisplacementMove
    from quansino.moves.exchange import ExchangeMove
    from quansino.operations.displacement import Ball

    rs = np.random.RandomState(3)
    n0 = 1 if drain else 3  # drain: a box that empties (deletions favoured) and is refilled now and then
    atoms = Atoms(f"Cu{n0}", positions=rs.rand(n0, 3) * 3 + 2, cell=[8, 8, 8], pbc=True)
    atoms.calc = Harmonic(k=0.05, centers=atoms.positions, eps=0.01)
    files = {}
    for kind in ("log", "traj", "restart"):
        if old and kind != "restart":
            with open(os.path.join(dirpath, f"{kind}.out"), "w") as fh:
                fh.write(OLD_LOG if kind == "log" else OLD_TRAJ)
        real = open(os.path.join(dirpath, f"{kind}.out"), (handle_mode or mode) + ("+" if kind == "restart" else ""))  # noqa: SIM115
        files[kind] = RecFile(real, kill_at=kill[1] if kill and kill[0] == kind else None)
    mc = GrandCanonical(atoms, exchange_atoms=Atoms("Cu", positions=[[0, 0, 0]]), temperature=3000.0, chemical_potential=-5.2 if drain else -3.7, number_of_exchange_particles=n0, max_cycles=2,
                        seed=seed, logfile=files["log"], trajectory=files["traj"], restart_file=files["restart"], logging_interval=1, logging_mode=mode)
    mc.add_move(ExchangeMove(np.arange(n0)), name="exch")
    mc.add_move(DisplacementMove(np.arange(n0), Ball(0.3)), name="disp", probability=0.3)
    if boom_at is not None:
        cnt = {"k": 0}

        def column(cnt=cnt):
            cnt["k"] += 1
            if cnt["k"] == boom_at:
                raise Boom("transient failure of a user-supplied column")
            return float(len(mc.atoms))

        mc.default_logger.add_field("Natoms", column, "{:10.1f}")
    return mc, files


def drive(mc, files, steps):
    """-> list of (step_count, natoms) after each round of observer calls"""
    saved = []
    target = int(mc.step_count) + steps
    while True:
        try:
            first = True
            for st in mc.irun(target - int(mc.step_count)):
                # (a run that is CONTINUED yields its first step without having called any observer)
                called = not (first and int(mc.step_count) > 0)
                first = False
                for f in files.values():
                    f.mark_end(force=called)
                saved.append((int(mc.step_count), len(mc.atoms)))
                for _ in st:
                    pass
            break
        except Boom:
            # the logger call raised: the observer round is left, the user carries on with another run call
            files["log"].mark_fail()
            for k in ("traj", "restart"):
                files[k].mark_end()
    for f in files.values():
        f.mark_end(force=True)
    saved.append((int(mc.step_count), len(mc.atoms)))
    return saved


class Model:
    """Python mirror of Files.tla's file semantics, on bytes"""

    def __init__(self, mode, old=""):
        self.disk = old
        self.buf = []
        self.pos = len(old)
        self.mode = mode

    def apply(self, pending):
        if self.mode == "a":
            return self.disk + pending
        return self.disk[: self.pos] + pending + self.disk[self.pos + len(pending):]

    def flush(self):
        p = "".join(self.buf)
        if p:
            self.disk = self.apply(p)
            self.pos = len(self.disk) if self.mode == "a" else self.pos + len(p)
        self.buf = []

    def op(self, o):
        if o[0] == "w":
            self.buf.append(o[1])
        elif o[0] == "f":
            self.flush()
        elif o[0] == "s":
            self.flush()
            self.pos = o[1]
        elif o[0] == "t":
            self.flush()
            self.disk = self.disk[: self.pos]

    def survivors(self):
        """disk + any byte prefix of the buffer (chunk boundaries and three offsets inside each chunk)"""
        out = []
        done = ""
        out.append(self.apply(done))
        for ch in self.buf:
            for off in sorted({1, len(ch) // 2, len(ch) - 1}):
                if 0 < off < len(ch):
                    out.append(self.apply(done + ch[:off]))
            done += ch
            out.append(self.apply(done))
        return out


def doc_state(text):
    from ase.io.jsonio import read_json

    try:
        d = read_json(io.StringIO(text))
        return (int(d["attributes"]["step_count"]), len(d["atoms"]))
    except Exception:  # noqa: BLE001
        return None


def judge(kind, surv, completed_texts, docs, done, cur_text=""):
    """-> None or (signature, message)"""
    if kind in ("log", "traj"):
        want = "".join(completed_texts)
        if not surv.startswith(want):
            return (f"{kind}:completed-record-lost", f"after a crash the {kind} file no longer starts with the {done} completed records")
        return None
    if done == 0:
        return None
    from ase.io.jsonio import read_json

    try:
        d = read_json(io.StringIO(surv))
        step = d["attributes"]["step_count"]
        n = len(d["atoms"])
    except Exception as ex:  # noqa: BLE001
        state = "empty" if surv == "" else "partial-or-garbled"
        return (f"restart:unloadable:{state}", f"after a crash the restart file ({len(surv)} bytes, {state}) does not load: {type(ex).__name__}")
    if (int(step), int(n)) not in docs and (int(step), int(n)) != doc_state(cur_text):
        return ("restart:loads-unsaved-state", f"after a crash the restart file loads to step {step} with {n} atoms, which was never saved")
    return None


def analyse(rep, kind, mode, ops, tag, old=""):
    """B1: walk the op log with the byte model; judge every crash content and the content after each call"""
    from ase.io import read as ase_read
    from ase.io.jsonio import read_json

    m = Model(mode, old)
    completed = [old] if old else []
    nold_frames = 1 if (old and kind == "traj") else 0
    cur = []
    docs = set()
    done = 0
    ncrash = 0
    prev_op = "init"
    for idx, o in enumerate(ops):
        # crash before operation idx
        for surv in m.survivors():
            ncrash += 1
            bad = judge(kind, surv, completed, docs, done, "".join(cur))
            if bad:
                window = f"before-{o[0]}-after-{prev_op}"
                if bad[0].startswith("restart:unloadable") and prev_op in ("t", "w") and o[0] in ("w", "f"):
                    rep.violation("restart-rewrite-not-atomic", f"{bad[1]} (mode '{mode}', crash between truncate and flush of restart observer call {done})", {"kind": kind, "mode": mode, "op_index": idx, "ops_tail": ops[max(0, idx - 4): idx + 1]})
                    continue
                rep.violation(f"crash:{bad[0]}:{window}:{tag}", f"{bad[1]} (mode '{mode}', crash before op {idx} '{o[0]}', {done} calls completed)", {"kind": kind, "mode": mode, "op_index": idx, "ops_tail": ops[max(0, idx - 4): idx + 1], "survivor": surv[-300:]})
        if o[0] == "fail":
            if cur:
                rep.violation(f"failed-call-left-partial-record:{kind}:{tag}", f"a {kind} observer call that raised left {sum(len(c) for c in cur)} bytes of a partial record in the file or its buffer (mode '{mode}', after {done} completed calls): {''.join(cur)[-80:]!r}", {"kind": kind, "ops_tail": ops[max(0, idx - 5): idx + 1]})
            prev_op = o[0]
            continue
        if o[0] == "end":
            m_ok = (m.buf == [])
            text = "".join(cur)
            if not m_ok:
                rep.violation(f"after-call:{kind}:not-flushed:{tag}", f"{kind} observer returned with {sum(len(b) for b in m.buf)} bytes still unflushed (mode '{mode}', call {done})", {"kind": kind, "ops_tail": ops[max(0, idx - 5): idx + 1]})
            if kind == "restart":
                try:
                    d = read_json(io.StringIO(m.disk))
                    docs.add((int(d["attributes"]["step_count"]), len(d["atoms"])))
                except Exception as ex:  # noqa: BLE001
                    rep.violation(f"after-call:restart:not-one-json-document:{tag}", f"after restart observer call {done} the file does not hold exactly one JSON document: {type(ex).__name__}: {str(ex)[:80]} (mode '{mode}')", {"ops_tail": ops[max(0, idx - 5): idx + 1], "disk_tail": m.disk[-200:]})
                if m.disk != text and m_ok:
                    rep.violation(f"after-call:restart:stale-bytes:{tag}", f"after restart observer call {done} the file holds {len(m.disk)} bytes but the document written is {len(text)} bytes (mode '{mode}')", {"ops_tail": ops[max(0, idx - 5): idx + 1]})
            else:
                completed.append(text)
                if m.disk != "".join(completed) and m_ok:
                    rep.violation(f"after-call:{kind}:content:{tag}", f"after {kind} observer call {done} the file is not the concatenation of the records written so far (mode '{mode}')", {"ops_tail": ops[max(0, idx - 5): idx + 1]})
                if kind == "log":
                    rows = text.splitlines()
                    if not text.endswith("\n") or len(rows) != (2 if done == 0 else 1):
                        rep.violation(f"after-call:log:rows:{tag}", f"logger call {done} wrote {len(rows)} lines (expected {'header + 1 row' if done == 0 else '1 row'})", {"text": text})
                else:
                    try:
                        frames = ase_read(io.StringIO(m.disk), index=":", format="extxyz")
                        if len(frames) != done + 1 + nold_frames:
                            raise ValueError(f"{len(frames)} frames")
                    except Exception as ex:  # noqa: BLE001
                        rep.violation(f"after-call:traj:frames:{tag}", f"after trajectory call {done} the file does not parse as {done + 1} extended-XYZ frames: {ex}", {})
            cur = []
            done += 1
        else:
            if o[0] == "w":
                cur.append(o[1])
            m.op(o)
        prev_op = o[0]
    return ncrash


def tla_trace(kind, mode, ops, old=""):
    """op log -> Files_Trace record: every write chunk becomes two units so that a torn write is representable"""
    out = []
    code = {"log": 1, "traj": 2, "restart": 3}[kind]
    ci = 0
    for o in ops:
        if o[0] == "w":
            ci += 1
            out.append({"op": "w", "units": [[code, ci, 1], [code, ci, 2]]})
        else:
            out.append({"op": o[0], "units": []})
    return {"kind": kind, "mode": mode, "ops": out, "old": [[code, 0, 1]] if old else []}


_STRESSED = None


def _stress_atoms(ver):
    from ase import units
    from ase.calculators.calculator import Calculator, all_changes

    global _STRESSED
    if _STRESSED is None:   # one class for all (a class per call makes interpreter shutdown quadratic)
        class Stressed(Calculator):
            implemented_properties = ("energy", "stress")

            def __init__(self, ver):
                super().__init__()
                self.ver = ver

            def calculate(self, atoms=None, properties=("energy",), system_changes=all_changes):
                super().calculate(atoms, properties, system_changes)
                self.results = {"energy": 0.0, "stress": np.array([10.0 * self.ver + j for j in range(1, 7)]) * units.GPa}

        _STRESSED = Stressed
    a = Atoms("Cu", positions=[[0.0, 0.0, 0.0]], cell=[4.0, 4.0, 4.0], pbc=True)
    a.calc = _STRESSED(ver)
    return a


_SIM_CLASSES = {}


def _fake_simulation(kind, first_ver):
    """A stand-in for the simulation object a convenience set reads (the Logger only calls the accessors named in
    the set): the value behind the set's i-th column is 10 * (first_ver + i) + 1, the stamp of THAT definition."""
    import numpy as _np
    from ase import units

    names = {"mc": ["Class", "Step", "Epot[eV]"], "md": ["Time[ps]", "Epot[eV]", "Ekin[eV]", "T[K]"], "opt": ["Class", "Step", "Time", "Epot[eV]", "Fmax[eV/A]"]}[kind]
    val = {nm: 10 * (first_ver + i) + 1 for i, nm in enumerate(names)}

    class _Atoms:
        def get_potential_energy(self):
            return float(val["Epot[eV]"])

        def get_kinetic_energy(self):
            return float(val["Ekin[eV]"])

        def get_temperature(self):
            return float(val["T[K]"])

        def get_forces(self):
            f = _np.zeros((3, 3))
            f[1] = [0.0, float(val["Fmax[eV/A]"]), 0.0]
            f[2] = [0.5, 0.0, 0.0]
            return f

    cname = f"S{val.get('Class', 0)}"
    cls = _SIM_CLASSES.get(cname)
    if cls is None:
        cls = _SIM_CLASSES[cname] = type(cname, (), {})
    sim = cls()
    sim.atoms = _Atoms()
    sim.step_count = sim.nsteps = val.get("Step", 0)
    sim.get_time = lambda: val["Time[ps]"] * 1000 * units.fs
    return sim, len(names)


def logger_fields(rep, tier):
    """LoggerFields.tla: every history of add_field / remove_fields calls enumerated by TLC is replayed on a real
    Logger; the header must name, and a row must hold a value of, exactly the columns the specification expects."""
    from quansino.io.logger import Logger

    env = {"LOGF_LEN": "5"} if tier == "thorough" else {}
    r = run_tlc("LoggerFields", "MC_LoggerFields.cfg", workers=1, env=env, timeout=1500)
    if not r.ok:
        if r.invariant_violated or r.property_violated:
            rep.violation(f"model:logger:{(r.invariant_violated or ['LOG_ReplaceKeepsPosition'])[0]}", "TLC: LoggerFields.tla violated", {"tlc": r.out[-2000:]})
        else:
            rep.error(f"TLC failed on LoggerFields: {r.out[-1200:]}")
        return 0, 0
    n = 0
    for line in r.out.splitlines():
        line = line.strip()
        if not line.startswith('"@@'):
            continue
        case = json.loads(json.loads(line)[2:])
        n += 1
        if len(case["hist"]) >= 5 and n % 3:
            continue   # thorough tier: TLC checks every history of length 5 (1.5 M), every third is replayed on a real logger
        buf = io.StringIO()
        lg = Logger(buf, 1)
        ver = 0
        try:
            for op, arg in case["hist"]:
                if op == "add":
                    ver += 1
                    if arg["stress"]:
                        # the shipped convenience call; the stress of these atoms is (10 ver + j) GPa in Voigt component j
                        mask = [j + 1 in arg["comps"] for j in range(6)]
                        lg.add_stress_fields(_stress_atoms(ver), include_ideal_gas=bool(ver % 2), mask=mask if (len(arg["comps"]) < 6 or ver % 2) else None)
                    elif arg["arr"]:
                        names = list(arg["n"]) if ver % 2 else tuple(arg["n"])
                        lg.add_field(names, (lambda v=ver, k=len(arg["n"]): [10.0 * v + i + 1 for i in range(k)]), " ".join(["{:8.1f}"] * len(arg["n"])), is_array=True)
                    else:
                        lg.add_field(arg["n"][0], (lambda v=ver: 10.0 * v + 1), "{:8.1f}")
                elif op == "set":
                    sim, k = _fake_simulation(arg, ver + 1)
                    {"mc": lg.add_mc_fields, "md": lg.add_md_fields, "opt": lg.add_opt_fields}[arg](sim)
                    ver += k
                else:
                    lg.remove_fields(arg)
            lg.write_header()
            lg()
        except Exception as ex:  # noqa: BLE001
            rep.violation(f"logger-fields:raise:{type(ex).__name__}", f"configuring a logger with {case['hist']} and writing header + row raised {ex!r}", {"case": case})
            lg.close()
            continue
        text = buf.getvalue()
        lines = text.split("\n")
        lg.close()   # (every text observer registers itself with atexit and lives until it is closed: keep that list short)
        want_h = [c["name"] for c in case["columns"]]
        want_r = [10.0 * c["ver"] + c["comp"] for c in case["columns"]]
        got_h = lines[0].split()
        try:
            got_r = lines[1].split()
            for i, c in enumerate(case["columns"]):
                if i >= len(got_r):
                    break
                if c["name"] == "Class":     # the class name carries the stamp
                    got_r[i] = float(got_r[i][1:]) if got_r[i].startswith("S") else got_r[i]
                elif c["name"] == "Time":    # wall clock HH:MM:SS: any well-formed time is the expected value
                    got_r[i] = want_r[i] if re.fullmatch(r"[0-2]\d:[0-5]\d:[0-6]\d", got_r[i]) else got_r[i]
                else:
                    got_r[i] = float(got_r[i])
            got_r = [float(x) if not isinstance(x, float) else x for x in got_r]
        except Exception:  # noqa: BLE001
            got_r = None
        if n % 1000 == 1:
            rep.sample({"logger_history": case["hist"], "expected_columns": want_h})
        rep.count(("logger-fields", len(case["hist"]), len(want_h)), nontrivial=len(case["hist"]) > 1)
        if len(lines) != 3 or lines[2] != "" or got_h != want_h or got_r != want_r:
            what = "header" if got_h != want_h else "row"
            rep.violation(f"logger-fields:{what}", f"after {case['hist']} the logger writes header {got_h} and row {got_r}; the specification says columns {want_h} with values {want_r}", {"case": case, "text": text})
    return r.distinct, n


def logger_repoint(rep, tier):
    """Observers.tla's 're-assign file' on the observer that matters most: a Logger that is given another file (log rotation,
    stdout -> file) writes its next header and rows THERE, complete and flushed, and nothing more into the old one."""
    import sys as _sys

    from quansino.io.logger import Logger

    tmp = tempfile.mkdtemp(prefix="c16rp_")
    n = 0
    try:
        for first in ("path", "stream", "stdout"):
            for second in ("path", "stream"):
                for calls_before in (0, 2):
                    n += 1
                    rep.count(("logger-repoint", first, second, calls_before), nontrivial=True)
                    real_stdout = _sys.stdout
                    fake = io.StringIO()
                    s1 = io.StringIO()
                    p1 = os.path.join(tmp, f"a{n}.log")
                    try:
                        if first == "stdout":
                            _sys.stdout = fake
                        lg = Logger({"path": p1, "stream": s1, "stdout": fake}[first], 1)   # (fake IS sys.stdout at this moment)
                        val = [0.0]
                        lg.add_field("X", lambda: val[0], "{:8.1f}")
                        lg.write_header()
                        for k in range(calls_before):
                            val[0] = 1.0 + k
                            lg()
                        old_text = {"path": lambda: open(p1).read(), "stream": s1.getvalue, "stdout": fake.getvalue}[first]()
                        s2 = io.StringIO()
                        p2 = os.path.join(tmp, f"b{n}.log")
                        lg.file = p2 if second == "path" else s2
                        lg.write_header()
                        for k in range(3):
                            val[0] = 10.0 + k
                            lg()
                        new_text = open(p2).read() if second == "path" else s2.getvalue()
                        old_after = {"path": lambda: open(p1).read(), "stream": (lambda: old_text if s1.closed else s1.getvalue()), "stdout": fake.getvalue}[first]()
                        lg.close()
                    except Exception as ex:  # noqa: BLE001
                        _sys.stdout = real_stdout
                        rep.violation(f"logger-repoint:raise:{first}->{second}:{type(ex).__name__}", f"a Logger on a {first} that is given a {second} ({calls_before} rows written before) raised {ex!r}", {"first": first, "second": second})
                        continue
                    finally:
                        _sys.stdout = real_stdout
                    rows = [ln.split() for ln in new_text.split("\n") if ln.strip()]
                    want = [["X"], ["10.0"], ["11.0"], ["12.0"]]
                    if rows != want or not new_text.endswith("\n"):
                        rep.violation(f"logger-repoint:new-file:{first}->{second}", f"a Logger on a {first} re-pointed to a {second}: the new file holds {rows}, expected header + 3 rows {want}", {"first": first, "second": second, "text": new_text})
                    elif [ln.split() for ln in old_after.split("\n") if ln.strip()] != [["X"]] + [[f"{1.0 + k:.1f}"] for k in range(calls_before)]:
                        # (what was written before the switch -- the header may still have been buffered then -- and nothing else)
                        rep.violation(f"logger-repoint:old-file:{first}->{second}", f"a Logger on a {first} re-pointed to a {second}: the old target holds something else than its header and the {calls_before} rows written before the switch", {"first": first, "second": second, "before": old_text, "after": old_after})
    finally:
        shutil.rmtree(tmp, ignore_errors=True)
    return n


def header_format(rep, tier):
    """HeaderFormat.tla: every format string enumerated by TLC goes through the real get_auto_header_format (text must
    equal the specification's), through str.format (the claimed width / alignment / padding of every header cell must be
    what Python really renders, next to the rendered data cell) and, for single cells, through Logger.add_field."""
    from quansino.io.logger import Logger
    from quansino.utils.strings import get_auto_header_format

    r = run_tlc("HeaderFormat", "MC_HeaderFormat.cfg", workers=1, env={"HDR_DEEP": "1"} if tier == "thorough" else {}, timeout=900)
    if not r.ok:
        if r.invariant_violated or r.property_violated:
            rep.violation(f"model:header:{(r.invariant_violated or ['?'])[0]}", "TLC: HeaderFormat.tla violated", {"tlc": r.out[-2000:]})
        else:
            rep.error(f"TLC failed on HeaderFormat: {r.out[-1200:]}")
        return 0, 0
    sample = {"f": 0.5, "e": 0.5, "g": 0.5, "": 0.5, "d": 5, "s": "ab"}
    n = nrendered = 0
    for line in r.out.splitlines():
        line = line.strip()
        if not line.startswith('"@@'):
            continue
        case = json.loads(json.loads(line)[2:])
        n += 1
        fmt, want = case["fmt"], case["header"]
        try:
            got = get_auto_header_format(fmt)
        except Exception as ex:  # noqa: BLE001
            rep.violation(f"header-format:raise:{type(ex).__name__}", f"get_auto_header_format({fmt!r}) raised {ex!r}", {"case": case})
            continue
        rep.count(("header-format", len(case["cells"]), any(c["plain"] for c in case["cells"])), nontrivial=True)
        if n % 400 == 1:
            rep.sample({"data_format": fmt, "expected_header_format": want})
        if got != want:
            rep.violation("header-format:text", f"get_auto_header_format({fmt!r}) = {got!r}; the specification's derivation gives {want!r}", {"case": case, "got": got})
            continue
        names = ["Nm"] * len(case["cells"])
        try:
            got.format(*names)
        except Exception as ex:  # noqa: BLE001
            rep.violation("header-format:invalid", f"the header format {got!r} derived from {fmt!r} cannot format names: {ex!r}", {"case": case})
            continue
        for c in case["cells"]:
            if c["bare"]:
                continue
            hcell = c["head"].format("Nm")
            nm = (c["head"].split(":")[0] + "}").format("Nm")      # the name as the cell's prefix (field number, conversion) shows it
            w = c["width"]
            okw = len(hcell) == max(w, len(nm))
            pad = hcell.replace(nm, "", 1)
            okpad = set(pad) <= ({"0"} if c["zeropad"] else {" "})
            oka = {">": hcell.endswith(nm), "<": hcell.startswith(nm), "^": abs((len(hcell) - len(nm)) // 2 - hcell.find(nm)) <= 1}[c["align"]]
            if not (okw and okpad and oka):
                rep.violation("header-format:render", f"header cell {c['head']!r} renders {hcell!r}; the specification claims width {w}, alignment {c['align']!r}, zero padding {c['zeropad']}", {"case": case, "cell": c})
                continue
            if c["plain"] and c["datawidth"]:
                try:
                    dcell = c["data"].format(sample[c["type"]])
                except (ValueError, TypeError):
                    continue   # not a data format Python accepts for this type (e.g. grouping of a string)
                if len(dcell) != c["datawidth"]:
                    continue   # the sample value does not fit the cell: Python widens it, no claim
                nrendered += 1
                if len(dcell) != len(hcell):
                    rep.violation("header-format:width", f"plain data cell {c['data']!r} renders {dcell!r} ({len(dcell)} wide) under header cell {hcell!r} ({len(hcell)} wide)", {"case": case, "cell": c})
        if len(case["cells"]) == 1 and not case["cells"][0]["bare"]:
            c = case["cells"][0]
            try:
                c["data"].format(sample[c["type"]])
            except (ValueError, TypeError):
                continue
            buf = io.StringIO()
            lg = Logger(buf, 1)
            lg.add_field("Nm", (lambda v=sample[c["type"]]: v), fmt)
            lg.write_header()
            lg()
            lines = buf.getvalue().split("\n")
            lg.close()
            if lines[0] != want.format("Nm") or lines[1] != fmt.format(sample[c["type"]]):
                rep.violation("header-format:logger", f"a Logger with one field of format {fmt!r} writes {lines[:2]}; expected header {want.format('Nm')!r} over {fmt.format(sample[c['type']])!r}", {"case": case, "text": buf.getvalue()})
    if n and not nrendered:
        rep.error("header-format layer rendered no plain data cell (vacuous)")
    return r.distinct, n


def observer_ownership(rep, tier):
    """Observers.tla: every action sequence (attach / detach / re-assign file / close observer / close manager)
    enumerated by TLC is replayed on real TextObserver / ObserverManager objects; handle states must match."""
    import io as _io
    import re
    import sys

    from quansino.io.core import TextObserver
    from quansino.io.file import ObserverManager
    from tlc import tla_value_to_py

    tmp = tempfile.mkdtemp(prefix="c16obs_")
    try:
        dump = os.path.join(tmp, "obs.dump")
        r = run_tlc("Observers", "MC_Observers.cfg", workers=8, env={"OBS_LEN": "3" if tier == "quick" else "4"}, extra=["-dump", dump], timeout=900)
        if not r.ok:
            if r.invariant_violated or r.property_violated:
                rep.violation("model:Observers", "TLC: a property of Observers.tla is violated", {"tlc": r.out[-2000:]})
            else:
                rep.error(f"TLC failed on Observers: {r.out[-1200:]}")
            return 0, 0, 0
        text = open(dump).read()
    finally:
        shutil.rmtree(tmp, ignore_errors=True)
    n = 0
    real_stdout = sys.stdout
    for block in text.split("\n\n"):
        if "hist" not in block:
            continue
        st = {}
        for m in re.finditer(r"/\\ (\w+) = (.*?)(?=\n/\\ |\Z)", block, re.S):
            st[m.group(1)] = tla_value_to_py(m.group(2).strip())
        hist = st["hist"]
        if not hist:
            continue
        n += 1
        fake_std = _io.StringIO()
        sys.stdout = fake_std
        try:
            files = {"f1": _io.StringIO(), "f2": _io.StringIO(), "std": fake_std}
            obs = {"o1": TextObserver(files["f1"]), "o2": TextObserver(fake_std)}
            man = ObserverManager()
            refused = False
            try:
                for a in hist:
                    refused = False
                    if a[0] == "attach":
                        man.attach_observer(a[1], obs[a[2]])
                    elif a[0] == "detach":
                        man.detach_observer(a[1], close=(a[2] == "close"))
                    elif a[0] == "setfile":
                        try:
                            obs[a[1]].file = files[a[2]]
                        except ValueError:
                            refused = True
                    elif a[0] == "close":
                        obs[a[1]].close()
                    else:
                        man.close()
            except Exception as ex:  # noqa: BLE001
                sys.stdout = real_stdout
                rep.violation(f"observers:raise:{hist[-1][0]}:{type(ex).__name__}", f"observer ownership: {hist} raised {ex!r}", {"hist": hist})
                continue
        finally:
            sys.stdout = real_stdout
        rep.count(("observers", json.dumps(hist)), nontrivial=len(hist) > 1)
        for f in ("f1", "f2", "std"):
            if files[f].closed == st["open"][f]:
                what = "closed" if files[f].closed else "left open"
                rep.violation(f"observers:{f if f == 'std' else 'file'}-{what.replace(' ', '-')}:after-{hist[-1][0]}", f"observer ownership: after {hist} the handle {f} is {what}; Observers.tla says open = {st['open'][f]}", {"hist": hist})
                break
        else:
            if refused != st["refused"]:
                rep.violation("observers:closed-file-linking", f"observer ownership: after {hist} linking a closed file was {'refused' if refused else 'accepted'}, the specification says refused = {st['refused']}", {"hist": hist})
            elif not st["refused"]:
                for o in ("o1", "o2"):
                    if obs[o].file is not files[st["file"][o]]:
                        rep.violation("observers:wrong-handle", f"observer ownership: after {hist} observer {o} does not hold handle {st['file'][o]}", {"hist": hist})
                        break
        for o in obs.values():   # (judged above; every text observer stays registered with atexit until it is closed)
            try:
                o.close()
            except Exception:  # noqa: BLE001
                pass
        for f in files.values():
            try:
                f.close()
            except Exception:  # noqa: BLE001
                pass
    return n, r.distinct, r.generated


def run(tier: str) -> int:
    rep = Report("C16", tier, "fault_enumeration")
    warnings.simplefilter("ignore")
    states = trans = 0
    # ---- (0) abstract model ----------------------------------------------------------------------
    for mode in ("a", "w"):
        r = run_tlc("Files", f"MC_Files_{mode}.cfg", workers=4, timeout=600)
        states += r.distinct
        trans += r.generated
        if not r.ok:
            if r.invariant_violated:
                rep.violation(f"model:{r.invariant_violated[0]}:{mode}", f"TLC: {r.invariant_violated[0]} violated in Files.tla (mode {mode})", {"tlc": r.out[-2500:]})
            else:
                rep.error(f"TLC failed on Files ({mode}): {r.out[-1200:]}")
        r = run_tlc("Files", f"MC_Files_{mode}_restart.cfg", workers=1, timeout=600)
        states += r.distinct
        trans += r.generated
        if "C16_RestartLoads" in r.invariant_violated:
            # where does the counterexample crash?
            import re

            pcs = re.findall(r'/\\ pc = "(\w+)"', r.out)
            window = pcs[-1] if pcs else "?"
            rep.violation("restart-rewrite-not-atomic" if window in ("rst_write", "rst_flush") else f"model:restart:crash-at-{window}", f"Files.tla (mode {mode}): with the shipped operation order seek(0); truncate(); write; flush a crash at pc={window} leaves an empty or torn restart file although one had been written", {"tlc": r.out[-2500:]})
        elif not r.ok:
            rep.error(f"TLC failed on Files restart ({mode}): {r.out[-1200:]}")
    # ---- recorded runs ---------------------------------------------------------------------------------
    tmp = tempfile.mkdtemp(prefix="c16_")
    ncrash = 0
    nops = 0
    nkill = 0
    try:
        steps = 10 if tier == "quick" else 30
        recs = []
        ref = {}
        for mode in ("a", "w"):
            for base_seed in ([rep.seed % 1000 + 1] if tier == "quick" else [rep.seed % 1000 + 1, rep.seed % 1000 + 101, rep.seed % 1000 + 201]):
                # the property is about runs whose serialized state grows AND shrinks: search the next seeds for one
                for seed in range(base_seed, base_seed + 25):
                    d = os.path.join(tmp, f"run_{mode}_{seed}")
                    os.makedirs(d)
                    mc, files = build(d, mode, seed)
                    saved = drive(mc, files, steps)
                    mc.close()
                    sizes = [len(o[1]) for o in files["restart"].ops if o[0] == "w"]
                    natoms = [n for _, n in saved]
                    grew = sum(1 for a, b in zip(natoms, natoms[1:]) if b > a)
                    shrank = sum(1 for a, b in zip(natoms, natoms[1:]) if b < a)
                    if grew and shrank:
                        break
                else:
                    rep.error(f"vacuity: no seed in {base_seed}..{base_seed + 24} gives a run whose state both grows and shrinks (mode {mode})")
                    continue
                ref[(mode, seed)] = {k: list(f.ops) for k, f in files.items()}
                for kind, f in files.items():
                    tag = kind
                    nops += len(f.ops)
                    ncrash += analyse(rep, kind, mode, f.ops, tag)
                    recs.append(tla_trace(kind, mode, f.ops))
                    rep.count((kind, mode, seed))
                    # the real file on disk must equal the model's disk at the end (binds the byte model to CPython)
                    m = Model(mode)
                    for o in f.ops:
                        if o[0] != "end":
                            m.op(o)
                    on_disk = open(os.path.join(d, f"{kind}.out")).read()
                    if on_disk != m.disk:
                        rep.error(f"byte model and real file disagree for {kind} (mode {mode}): {len(on_disk)} vs {len(m.disk)} bytes")
                if len(rep.samples) < 3:
                    rep.sample({"mode": mode, "seed": seed, "restart_document_sizes": sizes, "log_ops_head": [o[0] for o in files["log"].ops[:10]], "restart_ops_head": [o[0] for o in files["restart"].ops[:10]]})
        # ---- further histories: a path that already holds an earlier simulation's output ('a' mode), and an observer
        # call that fails (a user-supplied log column raises once, the user carries on) --------------------------------
        for hi, (mode, has_old, boom) in enumerate((("a", True, None), ("a", False, 4), ("w", False, 3), ("a", True, 6), ("w", False, 2), ("a", False, "drain"), ("w", False, "drain"), ("w@a", True, None), ("w@a", True, 5))):
            # "w@a": handles the user opened for appending (they hold an earlier simulation's output) given to a driver
            # whose logging_mode is 'w'
            qmode = mode.split("@")[0]
            mode = mode.split("@")[-1]
            d = os.path.join(tmp, f"hist_{hi}")
            os.makedirs(d)
            seed = rep.seed % 1000 + 301 + hi
            drain = boom == "drain"
            if drain:
                boom = None
            mc, files = build(d, qmode, seed, old=has_old, boom_at=boom, drain=drain, handle_mode=mode)
            try:
                saved_ = drive(mc, files, steps * (3 if drain else 1))
                if drain and not any(nat == 0 for _, nat in saved_):
                    rep.error(f"vacuity: the draining run (mode {mode}) never had an empty box at an observer call")
            except Exception as ex:  # noqa: BLE001
                rep.violation(f"raise:history:{'old-content' if has_old else ''}:{'failing-column' if boom else ''}:{type(ex).__name__}", f"run with {'pre-existing files ' if has_old else ''}{'a failing log column ' if boom else ''}(mode '{mode}') raised {ex!r}", {"mode": mode})
                continue
            finally:
                try:
                    mc.close()
                except Exception:  # noqa: BLE001
                    pass
            for kind, f in files.items():
                old_text = (OLD_LOG if kind == "log" else OLD_TRAJ) if (has_old and kind != "restart") else ""
                tag = kind + (":old-content" if has_old else "") + (":failing-column" if boom else "") + (":driver-mode-w" if qmode != mode else "")
                nops += len(f.ops)
                ncrash += analyse(rep, kind, mode, f.ops, tag, old_text)
                recs.append(tla_trace(kind, mode, f.ops, old_text))
                rep.count((kind, mode, qmode, "old" if has_old else "", "boom" if boom else ""))
                on_disk = open(os.path.join(d, f"{kind}.out")).read()
                m = Model(mode, old_text)
                for o in f.ops:
                    if o[0] not in ("end", "fail"):
                        m.op(o)
                if on_disk != m.disk:
                    rep.error(f"byte model and real file disagree for {kind} (mode {mode}, history {hi}): {len(on_disk)} vs {len(m.disk)} bytes")
                if kind == "log":
                    # every line this run added is complete: the header once, then rows with as many columns as the header
                    added = on_disk[len(old_text):].splitlines()
                    ncol = len(added[0].split()) if added else 0
                    torn = [ln for ln in added[1:] if len(ln.split()) != ncol]
                    if boom and not any(o[0] == "fail" for o in f.ops):
                        rep.error(f"vacuity: the failing column never fired (history {hi})")
                    if not added or "Step" not in added[0] or torn or not on_disk.endswith("\n"):
                        rep.violation(f"log-not-well-formed:{tag}", f"log (mode '{mode}'): the lines added by this run are not a header followed by complete rows: {('first line ' + repr(added[0][:60])) if added and 'Step' not in added[0] else ''} {('malformed row ' + repr(torn[0][:120])) if torn else ''}", {"mode": mode, "added_head": added[:3], "torn": torn[:2]})
        # ---- the process died during its FIRST step: the run is resumed from the restart file written at step 0, into a new
        # log file -- which gets its header and the step-0 row like any log ---------------------------------------------------
        from ase.io.jsonio import read_json as _read_json

        from quansino.mc.gcmc import GrandCanonical as _GC

        for mode in ("a", "w"):
            d = os.path.join(tmp, f"resume0_{mode}")
            os.makedirs(d)
            mc, files = build(d, mode, rep.seed % 1000 + 451)
            try:
                it = mc.irun(steps)
                next(it)  # the step-0 observer calls have been made, the first step is about to be performed
                for f in files.values():
                    f.real.flush()
                data = _read_json(os.path.join(d, "restart.out"))
                calc = mc.atoms.calc
                mc.close()
                files2 = {}
                for kind in ("log", "traj", "restart"):
                    real = open(os.path.join(d, f"{kind}2.out"), mode + ("+" if kind == "restart" else ""))  # noqa: SIM115
                    files2[kind] = RecFile(real)
                new = _GC.from_dict(data, logfile=files2["log"], trajectory=files2["traj"], restart_file=files2["restart"], logging_interval=1, logging_mode=mode)
                new.atoms.calc = Harmonic(k=calc.k, centers=calc.centers, eps=calc.eps)
                drive(new, files2, 4)
                new.close()
            except Exception as ex:  # noqa: BLE001
                rep.violation(f"raise:resume-from-step-0:{type(ex).__name__}", f"resuming from the step-0 restart file raised {ex!r} (mode '{mode}')", {"mode": mode})
                continue
            for kind, f in files2.items():
                tag = kind + ":resumed-from-step-0"
                nops += len(f.ops)
                ncrash += analyse(rep, kind, mode, f.ops, tag)
                recs.append(tla_trace(kind, mode, f.ops))
                rep.count((kind, mode, "resume0"), nontrivial=True)
        # ---- resuming onto the SAME restart path (given as a path, default mode): the file written by the earlier run must
        # still load to a saved state at every moment before the resumed run makes its first observer call -- opening it
        # must not empty it --------------------------------------------------------------------------------------------------
        from quansino.moves.displacement import DisplacementMove as _DM
        from quansino.moves.exchange import ExchangeMove as _EM
        from quansino.operations.displacement import Ball as _Ball

        for kw in ({}, {"logging_mode": "a"}):
            d = os.path.join(tmp, f"samepath_{len(kw)}")
            os.makedirs(d)
            rpath = os.path.join(d, "restart.json")
            try:
                rs_ = np.random.RandomState(5)
                at_ = Atoms("Cu3", positions=rs_.rand(3, 3) * 3 + 2, cell=[8, 8, 8], pbc=True)
                at_.calc = Harmonic(k=0.05, centers=at_.positions, eps=0.01)
                first = _GC(at_, exchange_atoms=Atoms("Cu", positions=[[0, 0, 0]]), temperature=3000.0, chemical_potential=-3.7, number_of_exchange_particles=3, max_cycles=2, seed=rep.seed % 1000 + 77, restart_file=rpath, **kw)
                first.add_move(_EM(np.arange(3)), name="exch")
                first.add_move(_DM(np.arange(3), _Ball(0.3)), name="disp", probability=0.3)
                first.run(3)
                first.close()
                before = open(rpath).read()
                data = _read_json(rpath)
                second = _GC.from_dict(data, restart_file=rpath, **kw)
                rep.count(("restart", "same-path", len(kw)), nontrivial=True)
                now = open(rpath).read()
                ok_now = now == before
                second.atoms.calc = Harmonic(k=0.05, centers=at_.calc.centers, eps=0.01)
                second.run(1)
                second.close()
                after = _read_json(rpath)
                if not ok_now:
                    rep.violation("restart:emptied-when-reopened", f"rebuilding a simulation onto the restart path of the earlier run ({'default mode' if not kw else kw}) changed the file before any observer call: {len(before)} bytes -> {len(now)} bytes; a crash now loses the saved state", {"kw": kw, "bytes_before": len(before), "bytes_now": len(now)})
            except Exception as ex:  # noqa: BLE001
                rep.violation(f"raise:resume-same-path:{type(ex).__name__}", f"resuming onto the same restart path raised {ex!r}", {"kw": kw})
        # ---- the user calls the restart observer himself (a checkpoint right after the moves of a step, when the atoms
        # have changed but the step counter has not advanced yet): after EVERY observer call the file describes the latest
        # state -----------------------------------------------------------------------------------------------------------
        for mode in ("a", "w"):
            d = os.path.join(tmp, f"manual_{mode}")
            os.makedirs(d)
            mc, files = build(d, mode, rep.seed % 1000 + 401)
            try:
                nchk = 0
                for st in mc.irun(steps):
                    for _ in st:
                        pass
                    mc.default_restart()  # the user's checkpoint
                    files["restart"].real.flush()
                    got = doc_state(open(os.path.join(d, "restart.out")).read())
                    nchk += 1
                    rep.count(("manual-checkpoint", mode, nchk), nontrivial=True)
                    if got is None or got[1] != len(mc.atoms):
                        rep.violation(f"after-call:restart:manual-checkpoint-stale:{mode}", f"a restart-observer call made by the user after the moves of step {int(mc.step_count) + 1} leaves a file describing {got[1] if got else 'nothing loadable'} atoms; the simulation has {len(mc.atoms)} (mode '{mode}')", {"mode": mode, "checkpoint": nchk})
                        break
            except Exception as ex:  # noqa: BLE001
                rep.violation(f"raise:manual-checkpoint:{type(ex).__name__}", f"a run with user checkpoints raised {ex!r}", {"mode": mode})
            finally:
                try:
                    mc.close()
                except Exception:  # noqa: BLE001
                    pass
        # ---- (A) TLC on the recorded op logs --------------------------------------------------------
        tf = os.path.join(tmp, "ops.json")
        json.dump(recs, open(tf, "w"))
        rt = run_tlc("Files_Trace", "Files_Trace.cfg", workers=1, env={"TRACE_FILE": tf}, timeout=1500)
        states += rt.distinct
        trans += rt.generated
        if rt.rc != 0:
            rep.error(f"TLC trace validation (Files_Trace) failed: {rt.out[-1500:]}")
        seen = set()
        for line in rt.out.splitlines():
            if line.strip().startswith('"@@'):
                dd = json.loads(json.loads(line.strip())[2:])
                rec = recs[dd["tid"] - 1]
                nxt = rec["ops"][dd["i"]]["op"] if dd["i"] < len(rec["ops"]) else "eof"
                sig = f"tlc:{dd['what']}:{dd['kind']}:after-{dd['op']}-before-{nxt}"
                if dd["what"] == "crash" and dd["kind"] == "restart" and dd["op"] in ("t", "w") and nxt in ("w", "f"):
                    sig = "restart-rewrite-not-atomic"
                if sig in seen:
                    continue
                seen.add(sig)
                rep.violation(sig, f"Files_Trace: {dd['kind']} file (mode {rec['mode']}), {dd['what']} check fails in the state after op {dd['i']} '{dd['op']}' (next op '{nxt}', {dd['done']} calls completed)", {"ops_around": rec["ops"][max(0, dd["i"] - 4): dd["i"] + 2]})
        # ---- (B2) real crashes: forked children die before a chosen file operation ------------------------
        nk = 18 if tier == "quick" else 200
        rs = np.random.RandomState(rep.seed % 2**32)
        keys = sorted(ref)
        for j in range(nk):
            mode, seed = keys[j % len(keys)]
            kind = ("restart", "log", "traj")[j % 3]
            ops = ref[(mode, seed)][kind]
            real_ops = [o for o in ops if o[0] != "end"]
            n = int(rs.randint(2, len(real_ops) + 1))
            d = os.path.join(tmp, f"kill_{j}")
            os.makedirs(d)
            pid = os.fork()
            if pid == 0:
                try:
                    mc, files = build(d, mode, seed, kill=(kind, n))
                    drive(mc, files, steps)
                finally:
                    os._exit(3)
            _, status = os.waitpid(pid, 0)
            code = os.waitstatus_to_exitcode(status)
            if code != 17:
                rep.error(f"crash child exited with {code} instead of dying at op {n}")
                continue
            nkill += 1
            surv = open(os.path.join(d, f"{kind}.out")).read()
            # what had been completed before real operation n?
            completed, cur, docs, done, cnt = [], [], set(), 0, 0
            mm = Model(mode)
            prev = "init"
            for o in ops:
                if o[0] == "end":
                    if kind == "restart":
                        from ase.io.jsonio import read_json

                        try:
                            dd = read_json(io.StringIO(mm.disk))
                            docs.add((int(dd["attributes"]["step_count"]), len(dd["atoms"])))
                        except Exception:  # noqa: BLE001
                            pass
                    else:
                        completed.append("".join(cur))
                    cur = []
                    done += 1
                    continue
                cnt += 1
                if cnt == n:
                    nxt = o[0]
                    break
                if o[0] == "w":
                    cur.append(o[1])
                mm.op(o)
                prev = o[0]
            rep.count(("kill", kind, mode, n))
            bad = judge(kind, surv, completed, docs, done, "".join(cur))
            if bad and bad[0].startswith("restart:unloadable") and prev in ("t", "w") and nxt in ("w", "f"):
                rep.violation("restart-rewrite-not-atomic", f"REAL crash: {bad[1]} (mode '{mode}', process died between truncate and flush)", {"kind": kind, "mode": mode, "op": n})
            elif bad:
                rep.violation(f"crash:{bad[0]}:before-{nxt}-after-{prev}:{kind}", f"REAL crash: {bad[1]} (mode '{mode}', process died before op {n} '{nxt}', {done} calls completed)", {"kind": kind, "mode": mode, "op": n, "survivor_tail": surv[-200:]})
    finally:
        shutil.rmtree(tmp, ignore_errors=True)
    nobs, so, to = observer_ownership(rep, tier)
    states += so
    trans += to
    rep.add(observer_ownership_sequences=nobs)
    sl, nl = logger_fields(rep, tier)
    states += sl
    rep.add(logger_field_histories=nl)
    rep.add(logger_repoint_cases=logger_repoint(rep, tier))
    sh, nh = header_format(rep, tier)
    states += sh
    rep.add(header_format_strings=nh)
    rep.add(states=states, transitions=trans, traces_validated_against_impl=len(recs), evaluations=ncrash + nkill, file_operations_recorded=nops, crash_contents_judged=ncrash, real_crashes=nkill, exhaustive=True,
            rule="crash points: between every two consecutive file operations (write / flush / seek / truncate) of every Logger, TrajectoryObserver and RestartObserver call of grand-canonical runs whose serialized state grows and shrinks, modes 'a' and 'w'; for each crash point every prefix of the unflushed buffer (chunk boundaries and three byte offsets inside each chunk) is a surviving content; distinct = (file kind, mode, seed) logs + real kills; each content is judged by the real readers, the op logs by TLC (Files_Trace.tla), and sampled crash points by real forked processes dying before the operation")
    rep.assumptions += ["CPython may flush its buffer at any time, never reorders: survivors = disk + a prefix of the buffer", "observers receive user-owned handles on real files (the documented IO argument); handles are opened with default buffering",
                        "'loads to a state that was saved' = read_json succeeds and (step_count, number of atoms) is one of the saved pairs"]
    return rep.finish()
