"""Recording one Monte Carlo run as a trace of spec/QMC.tla events.

Instrumentation is done from the outside, with objects a user could write:
  * recording subclasses of the shipped elementary moves (they log which label /
    direction the call picked and delegate to the shipped implementation),
  * a recording criteria wrapper around the shipped criteria (logs the state
    when evaluate() is entered and its verdict),
and the harness itself drives irun()/step() and observes at every yield.
"""

from __future__ import annotations

import numpy as np

from project import NOLAB, Projector, elementary_moves, move_kind

from quansino.moves.cell import CellMove
from quansino.moves.displacement import DisplacementMove, HamiltonianDisplacementMove
from quansino.moves.exchange import ExchangeMove
from quansino.registry import register_class


class _Rec:
    """shared log of elementary calls within the current move call"""

    log: list = []
    depth = 0


class RecDisp(DisplacementMove):
    def __call__(self, context):
        pre = self.to_displace_labels
        _Rec.depth += 1
        try:
            ok = super().__call__(context)
        finally:
            _Rec.depth -= 1
        lab = self.displaced_labels if ok else pre
        _Rec.log.append({"m": id(self), "k": "disp", "lab": NOLAB if lab is None else int(lab), "ok": bool(ok)})
        return ok


class RecExch(ExchangeMove):
    def __call__(self, context):
        n0 = len(context.atoms)
        nd0 = len(context._deleted_indices)
        lab0 = np.asarray(self.labels).copy()
        _Rec.depth += 1
        try:
            ok = super().__call__(context)
        finally:
            _Rec.depth -= 1
        n1 = len(context.atoms)
        if n1 > n0:
            ev = {"dir": "ins", "lab": NOLAB, "ok": True, "size": int(n1 - n0)}
        elif n1 < n0:
            idx = np.asarray(context._deleted_indices, dtype=int)[nd0:]
            lab = int(lab0[idx[0]]) if len(idx) and idx[0] < len(lab0) else NOLAB
            ev = {"dir": "del", "lab": lab, "ok": True}
        else:
            ev = {"dir": "ins", "lab": NOLAB, "ok": False}
        ev.update({"m": id(self), "k": "exch"})
        if bool(ok) != ev["ok"]:
            ev["inconsistent"] = True
        _Rec.log.append(ev)
        return ok

    def attempt_addition(self, context):
        r = super().attempt_addition(context)
        if _Rec.depth == 0:  # called directly by a composite exchange move
            _Rec.log.append({"m": id(self), "k": "exch", "dir": "ins", "lab": NOLAB, "ok": bool(len(r)), "size": int(len(r))})
        return r


class RecCell(CellMove):
    def __call__(self, context):
        ok = super().__call__(context)
        _Rec.log.append({"m": id(self), "k": "cell", "ok": bool(ok)})
        return ok


class RecHam(HamiltonianDisplacementMove):
    def __init__(self, *a, **k):
        super().__init__(*a, **k)
        inner = self.distribution
        self._refreshed = None

        def dist(context):
            inner(context)
            self._refreshed = context.atoms.get_momenta().copy()

        self.distribution = dist

    def __call__(self, context):
        ok = super().__call__(context)
        _Rec.log.append({"m": id(self), "k": "ham", "ok": bool(ok), "refreshed_raw": self._refreshed})
        return ok


for _c in (RecDisp, RecExch, RecCell, RecHam):
    register_class(_c, _c.__name__)


class RecordingCriteria:
    """delegates to the shipped criteria; tells the recorder when evaluate starts/ends"""

    def __init__(self, inner, recorder, name):
        self.inner = inner
        self.recorder = recorder
        self.name = name

    def evaluate(self, context):
        self.recorder.on_call_returned(self.name, True)
        try:
            v = self.inner.evaluate(context)
        except Exception as ex:
            self.recorder.on_raise("evaluate", self.name, ex)
            raise
        self.recorder.on_evaluated(self.name, v)
        return v

    def to_dict(self):
        return self.inner.to_dict()

    @classmethod
    def from_dict(cls, data):
        raise NotImplementedError


class Recorder:
    def __init__(self, mc, fresh_factory, meta=None, on_yield=None):
        self.mc = mc
        self.on_yield = on_yield
        self.P = Projector(mc, fresh_factory)
        for name, st in mc.moves.items():
            st.criteria = RecordingCriteria(st.criteria, self, name)
        self.events: list[dict] = []
        self.meta = meta or {}
        self.pending_name = None
        self.called = False
        self.raised = None

    # -- events ------------------------------------------------------
    def emit(self, a, **kw):
        ev = {"a": a, "name": kw.pop("name", ""), "res": False, "verdict": "none", "subs": [], "where": "", "exc": "", "nmoved": -1, "noveto": False}
        ev.update(kw)
        cands = [s["refreshed_raw"] for s in _Rec.log if s.get("refreshed_raw") is not None]
        ev["s"] = self.P.state(extra_mom_candidates=cands)
        # sizes of the particles inserted by the trial in progress (not observable in the context: taken from the
        # insertions the recording moves saw); cleared with the other pending bookkeeping at the end of the trial
        if a == "call":
            self.addsz = [int(x["size"]) for x in ev["subs"] if x["k"] == "exch" and x.get("dir") == "ins" and x["ok"]]
        elif a in ("yield", "end"):
            self.addsz = []
        ev["s"]["addsz"] = list(getattr(self, "addsz", []))
        self.events.append(ev)

    def subs_for(self, name):
        """per-element outcomes of the call that just returned, aligned with the table entry's elements"""
        st = self.mc.moves[name]
        el = elementary_moves(st.move)
        log = list(_Rec.log)
        ctx = self.mc.context
        out = []
        from project import composite_kind

        ctype = composite_kind(st.move)
        if ctype == "cexch" and not any(e["k"] == "exch" and e["dir"] == "ins" for e in log):
            # composite deletion is done by the composite itself: reconstruct from the indices
            idx = [int(i) for i in np.asarray(getattr(ctx, "_deleted_indices", []), dtype=int).ravel()]
            k = 0
            gone = []   # label values already taken in this call (the composite filters its candidates by value)
            for m in el:
                lab = np.asarray(m.labels)
                if not (set(int(x) for x in lab if x >= 0) - set(gone)):
                    # the composite skips an element that has no candidate left (or never had a non-negative label):
                    # the next chunk of deleted indices belongs to a later element
                    out.append({"k": "exch", "dir": "del", "lab": NOLAB, "ok": False, "refreshed": [], "size": 0})
                    continue
                if k < len(idx) and idx[k] < len(lab):
                    lb = int(lab[idx[k]])
                    cnt = int((lab == lb).sum())
                    out.append({"k": "exch", "dir": "del", "lab": lb, "ok": True, "refreshed": [], "size": 0})
                    gone.append(lb)
                    k += cnt
                else:
                    out.append({"k": "exch", "dir": "del", "lab": NOLAB, "ok": False, "refreshed": [], "size": 0})
            return out
        byid: dict[int, list] = {}
        for e in log:
            byid.setdefault(e["m"], []).append(e)
        for m in el:
            q = byid.get(id(m), [])
            if q:
                e = q.pop(0)
                out.append({"k": e["k"], "dir": e.get("dir", ""), "lab": e.get("lab", NOLAB), "ok": e["ok"], "size": int(e.get("size", 0)),
                            "refreshed": self.P.mom_id(e["refreshed_raw"]) if e.get("refreshed_raw") is not None else []})
            else:
                # element not called (composite skipped it: no candidate) or a user move
                kind = move_kind(m)
                ok = bool(getattr(m, "last_result", False)) if kind == "user" else False
                out.append({"k": kind, "dir": "ins" if kind == "exch" else "", "lab": NOLAB, "ok": ok, "refreshed": [], "size": 0})
        return out

    def moved_info(self, name):
        """what a composite displacement move reports, and whether the user's check vetoed anything in this call"""
        mv = self.mc.moves[name].move
        nm = int(mv.number_of_moved_particles) if hasattr(mv, "number_of_moved_particles") else -1
        noveto = not getattr(self, "veto_active", lambda: True)()
        return {"nmoved": nm, "noveto": bool(noveto)}

    def on_call_returned(self, name, res):
        self.called = True
        self.emit("call", name=name, res=bool(res), subs=self.subs_for(name), **self.moved_info(name))

    def on_evaluated(self, name, v):
        self.emit("eval", name=name, verdict="acc" if v else "rej")

    def on_raise(self, where, name, ex):
        self.raised = (where, name, ex)

    def finish_trial(self):
        """called at the next yield / at the end of the step: the previous trial is over"""
        if self.pending_name is None:
            return
        name = self.pending_name
        hist = self.mc.move_history[-1] if self.mc.move_history else (name, "?")
        v = hist[1]
        if not self.called:
            # falsy move: no evaluate happened
            self.emit("call", name=name, res=False, subs=self.subs_for(name), **self.moved_info(name))
        self.emit("end", name=name, verdict="none" if v is None else ("acc" if v else "rej"))
        self.pending_name = None

    def leg(self, steps):
        mc = self.mc
        for step in mc.irun(steps):
            if hasattr(step, "__next__"):
                for name in step:
                    self.finish_trial()
                    self.P.refresh_moves()
                    _Rec.log = []
                    self.called = False
                    self.pending_name = name
                    if self.on_yield:
                        self.on_yield(str(name))
                    self.emit("yield", name=str(name))
                self.finish_trial()

    def run(self, steps, edit=None, steps2=0, reset_energy=True):
        """edit: between two run calls the user changes the atoms by hand (a callable acting on the simulation), declares
        the remembered energy void and lets the simulation re-validate; recorded as an "edit" event"""
        mc = self.mc
        try:
            self.leg(steps)
            if edit is not None:
                edit(mc)
                if reset_energy:
                    mc.context.last_potential_energy = np.nan  # what was remembered belongs to the configuration before the edit
                    mc.validate_simulation()
                self.pending_name = None
                self.emit("edit", name="")
                self.leg(steps2)
        except Exception as ex:  # noqa: BLE001
            where = "evaluate" if self.raised else ("move" if self.pending_name and not self.called else "end")
            ev = {"a": "raise", "name": str(self.pending_name or ""), "res": False, "verdict": "none", "subs": [], "where": where,
                  "exc": f"{type(ex).__name__}: {str(ex)[:160]}"}
            try:
                ev["s"] = self.P.state()
                ev["s"]["addsz"] = []
            except Exception:  # noqa: BLE001
                ev["s"] = self.events[-1]["s"]
            self.events.append(ev)
        return {"setup": self.P.setup(self.meta), "ev": self.events}
