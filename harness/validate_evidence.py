import json, sys, glob, jsonschema
schema = json.load(open('/root/.vp/EVIDENCE.schema.json'))
bad = 0
for f in sorted(glob.glob('/verif/evidence/*.json')):
    try:
        jsonschema.validate(json.load(open(f)), schema)
        print('valid', f)
    except Exception as e:
        bad += 1
        print('INVALID', f, str(e)[:300])
sys.exit(1 if bad else 0)
