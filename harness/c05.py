"""C05 -- engine traces validated against spec/QMC.tla (see qcheck.py); plus move tables that change during the life of a
simulation (a move added, or an entry replaced, after trials have been accepted): QMC.tla's C05_Aligned on every move
that is in the table when an exchange is accepted."""
import numpy as np

from qcheck import engine_check


class _Yes:
    def evaluate(self, context):
        return True

    def to_dict(self):
        return {"name": "Yes", "kwargs": {}}


def late_moves_layer(rep, tier):
    """The move table is live: a displacement / spectator / exchange move that joins (or replaces an entry) after exchanges
    have been accepted is kept aligned from then on like every other move."""
    from ase import Atoms

    from calcs import Harmonic
    from quansino.mc.gcmc import GrandCanonical
    from quansino.moves.displacement import DisplacementMove
    from quansino.moves.exchange import ExchangeMove
    from quansino.operations.displacement import Ball, Translation

    n = 0
    rs = np.random.RandomState(rep.seed % 2**32)
    for it in range(6 if tier == "quick" else 40):
        molecular = it % 2 == 1
        size = 2 if molecular else 1
        n0 = 3
        tmpl = Atoms("CO", positions=[[0, 0, 0], [0, 0, 1.13]]) if molecular else Atoms("Cu", positions=[[0, 0, 0]])
        atoms = Atoms(("CO" if molecular else "Cu") * n0, positions=rs.rand(n0 * size, 3) * 4 + 2, cell=[9, 9, 9], pbc=True)
        atoms.calc = Harmonic(k=0.05, centers=atoms.positions.copy(), eps=0.01)
        lab = np.repeat(np.arange(n0), size)
        mc = GrandCanonical(atoms, exchange_atoms=tmpl, temperature=3000.0, chemical_potential=0.0, number_of_exchange_particles=n0, max_cycles=2, seed=int(rs.randint(1, 10**6)))
        mc.add_move(ExchangeMove(lab.copy(), Translation(), bias_towards_insert=0.6), criteria=_Yes(), name="exchange")
        late = {}
        try:
            mc.run(3)   # exchanges are accepted (the criteria says yes)
            cur = np.asarray(mc.moves["exchange"].move.labels).copy()
            variant = ("add-displacement", "add-spectator", "replace-exchange")[it % 3]
            if variant == "add-displacement":
                late["disp"] = DisplacementMove(cur.copy(), Ball(0.2))
                mc.add_move(late["disp"], criteria=_Yes(), name="disp")
            elif variant == "add-spectator":
                late["spectator"] = DisplacementMove(np.full(len(cur), -1), Ball(0.2))
                late["spectator"].default_label = -1
                mc.add_move(late["spectator"], criteria=_Yes(), name="spectator", probability=1e-9)
            else:
                late["exchange"] = ExchangeMove(cur.copy(), Translation(), bias_towards_insert=0.6)
                mc.add_move(late["exchange"], criteria=_Yes(), name="exchange")
            natoms_before = len(mc.atoms)
            mc.run(4)
        except Exception as ex:  # noqa: BLE001
            rep.violation(f"raise:late-move:{type(ex).__name__}", f"a grand-canonical run whose table changed after accepted exchanges ({variant if 'variant' in dir() else '?'}) raised {ex!r}", {"it": it})
            continue
        n += 1
        rep.count(("late-move", it, variant), nontrivial=True)
        ref = np.asarray(mc.moves["exchange"].move.labels) if variant != "replace-exchange" else None
        for name, mv in late.items():
            labels = np.asarray(mv.labels)
            if len(labels) != len(mc.atoms):
                rep.violation(f"late-move-not-aligned:{variant}", f"a move that joined the table after accepted exchanges ({variant}) has {len(labels)} labels for {len(mc.atoms)} atoms ({natoms_before} atoms when it joined): it was never told about the accepted exchanges", {"variant": variant, "labels": labels.tolist(), "natoms": len(mc.atoms)})
                break
            if name == "spectator" and np.any(labels != -1):
                rep.violation("late-move-default-label", f"a spectator move (default label -1) that joined later has labels {labels.tolist()}", {"variant": variant})
                break
            if name == "disp" and ref is not None:
                # same partition of the atoms into particles as the exchange move sees
                same = all((labels[i] == labels[j]) == (ref[i] == ref[j]) for i in range(len(labels)) for j in range(len(labels)))
                if not same:
                    rep.violation("late-move-partition", f"a displacement move that joined later groups the atoms differently ({labels.tolist()}) than the exchange move ({ref.tolist()})", {"variant": variant})
                    break
        try:
            mc.close()
        except Exception:  # noqa: BLE001
            pass
    return n


def run(tier):
    rep = engine_check("C05", tier, finish=False)
    rep.add(late_move_cases=late_moves_layer(rep, tier))
    return rep.finish()


def replay(record):
    from qcheck import replay as r

    return r(record)
