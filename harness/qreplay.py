"""Spec -> code for the engine: complete behaviours of MC_QMC.tla (printed by
MC_QMC_Replay.tla) are replayed into the real drivers.

Every nondeterministic choice of the specification is imposed on the code through public
means: the schedule and a composite's label choice through the simulation's own generator
(scripted), a single move's target through its documented pre-selection attributes, vetoes
through the user's check_move, the verdict through a user criteria (which first asks for
the potential energy, as every shipped criteria does).  After every action the projected
state of the real simulation is compared with the specification's state up to renaming of
tokens (canonical numbering by first appearance)."""

from __future__ import annotations

import json
import os
import shutil
import subprocess
import tempfile

import numpy as np
from ase import Atoms
from ase.constraints import FixAtoms

from calcs import Harmonic
from project import NOLAB, Projector
from scripted_rng import ScriptedGenerator
from tlc import JAR

from common import SPEC


class ScriptedCriteria:
    def __init__(self, box):
        self.box = box

    def evaluate(self, context):
        context.atoms.get_potential_energy()
        return self.box.pop(0)

    def to_dict(self):
        return {"name": "ScriptedCriteria"}

    @classmethod
    def from_dict(cls, data):
        return cls([])


class CallVeto:
    """check_move scripted per move call: decisions[k] says whether the k-th call of the move may succeed"""

    def __init__(self):
        self.queue = []

    def __call__(self, *a, **k):
        return self.queue[0] if self.queue else True


def build(beh):
    from qrec import RecCell, RecDisp, RecExch, RecHam
    from quansino.integrators.displacement import Verlet
    from quansino.mc.canonical import Canonical, HamiltonianCanonical
    from quansino.mc.gcmc import GrandCanonical
    from quansino.mc.isobaric import Isobaric
    from quansino.operations.cell import IsotropicDeformation
    from quansino.operations.displacement import Ball, Translation, TranslationRotation

    s0 = beh["hist"][0]["s"]
    k = beh["tmplLen"]
    rs = np.random.RandomState(9)
    if k == 2:
        atoms = Atoms("CO", positions=[[3.0, 3.0, 3.0], [3.0, 3.0, 4.13]], cell=[9, 9.5, 10], pbc=True)
        tmpl = Atoms("CO", positions=[[0, 0, 0], [0, 0, 1.13]])
    else:
        atoms = Atoms("Cu2", positions=rs.rand(2, 3) * 3 + 3, cell=[9, 9.5, 10], pbc=True)
        tmpl = Atoms("Cu", positions=[[0, 0, 0]])
    atoms.set_momenta(rs.randn(2, 3))
    atoms.set_tags([1, 2])
    if s0["cons"]:
        atoms.set_constraint(FixAtoms(indices=[i - 1 for i in s0["cons"]]))
    if beh.get("fixcom"):
        from ase.constraints import FixCom

        atoms.set_constraint(FixCom())
    atoms.calc = Harmonic(k=0.2, centers=atoms.positions + 0.4, eps=0.05, cellk=0.0005)
    drv = beh["driver"]
    kw = dict(max_cycles=1, seed=3)
    if drv == "Canonical":
        mc = Canonical(atoms, temperature=500.0, **kw)
    elif drv == "Isobaric":
        mc = Isobaric(atoms, temperature=500.0, pressure=0.001, **kw)
    elif drv == "HamiltonianCanonical":
        mc = HamiltonianCanonical(atoms, temperature=500.0, **kw)
    else:
        mc = GrandCanonical(atoms, exchange_atoms=tmpl, temperature=500.0, chemical_potential=0.0, number_of_exchange_particles=s0["nexch"], **kw)
    objs, vetoes = {}, {}
    for mid, mo in beh["mobj"].items():
        lab = np.array(s0["labels"].get(mid, [0, 1]))
        if mo["kind"] == "disp":
            m = RecDisp(lab, Ball(0.3))
        elif mo["kind"] == "exch":
            m = RecExch(lab, TranslationRotation() if k == 2 else Translation())
        elif mo["kind"] == "cell":
            m = RecCell(IsotropicDeformation(0.03), scale_atoms=True)
        else:
            m = RecHam(operation=Verlet(dt=1.0, max_steps=2))
        if mo["defLabel"] != NOLAB and hasattr(m, "default_label"):
            m.default_label = mo["defLabel"]
        v = CallVeto()
        m.check_move = v
        m.max_attempts = 1
        objs[mid], vetoes[mid] = m, v
    verdicts = []
    for name, ent in beh["moves"].items():
        el = [objs[x] for x in ent["elems"]]
        if ent["ctype"] == "single":
            mv = el[0]
        else:
            mv = el[0]
            for e in el[1:]:
                mv = mv + e
        mc.add_move(mv, criteria=ScriptedCriteria(verdicts), name=name)
    g = ScriptedGenerator(5)
    mc._rng = g
    mc.context.rng = g
    return mc, objs, vetoes, verdicts, g, tmpl


def canon(state, keys_pos=("pos", "lastPos"), cfgs=("lastE", "lastRes", "calcAtoms", "calcRes")):
    """rename position tokens and cell tokens by first appearance -> comparable structure"""
    pm, cm = {}, {}

    def p(t):
        return pm.setdefault(t, len(pm) + 1)

    def c(t):
        if t in (0, -1):
            return t
        return cm.setdefault(t, len(cm) + 1)

    out = {"n": state["n"], "pos": [p(t) for t in state["pos"]], "cell": c(state["cell"]), "lastPos": [p(t) for t in state["lastPos"]], "lastCell": c(state["lastCell"])}
    for f in cfgs:
        v = state[f]
        out[f] = {"p": [p(t) for t in v["p"]], "c": c(v["c"])}
    for f in ("cons", "added", "deleted", "pdelta", "nexch", "labels", "presel"):
        out[f] = state[f]
    return out


def labels_equiv(before, deflab, exp, obs):
    """label arrays agree on labels that existed before / the configured default and induce the same partition
    otherwise (the number a fresh label gets is not part of the property)"""
    if set(exp) != set(obs):
        return False
    for m in exp:
        e, o = exp[m], obs[m]
        if len(e) != len(o):
            return False
        old = set(before.get(m, [])) | {deflab.get(m)}
        for a, b in zip(e, o):
            if (a in old or b in old) and a != b:
                return False
            if (a >= 0) != (b >= 0):
                return False
        for i in range(len(e)):
            for j in range(len(e)):
                if (e[i] == e[j]) != (o[i] == o[j]):
                    return False
    return True


def observed(P, spec_state=None):
    st = P.state()

    def pick(cands, want):
        # energy ownership is a set: take the member the specification expects if there is one (by structure)
        return cands[0]

    o = {"n": len(st["atoms"]), "pos": [a["pos"] for a in st["atoms"]], "cell": st["cell"], "cons": st["cons"], "lastPos": st["lastPos"], "lastCell": st["lastCell"],
         "calcAtoms": st["calcAtoms"], "added": st["added"], "deleted": st["deleted"], "pdelta": st["pdelta"], "nexch": st["nexch"], "labels": st["labels"], "presel": st["presel"], "evals": st["evals"]}
    alts = {f: st[f] for f in ("lastE", "lastRes", "calcRes")}
    return o, alts


def replay(beh):
    """-> None or (signature, message, detail)"""
    mc, objs, vetoes, verdicts, g, tmpl = build(beh)
    P = Projector(mc, lambda: Harmonic(k=0.2, centers=mc.atoms.calc.centers, eps=0.05, cellk=0.0005))
    P.mids = {id(o): mid for mid, o in objs.items()}  # the specification's names of the move objects
    P.mobjs = dict(objs)
    hist = beh["hist"]
    # group the history into trials: yielded, called_*, (evaluated), ended
    trials, curt = [], []
    for h in hist[1:]:
        curt.append(h)
        if h["a"] == "ended":
            trials.append(curt)
            curt = []
    mc.validate_simulation()
    for t in trials:
        name = t[0]["name"]
        call = next(h for h in t if h["a"].startswith("called"))
        end = t[-1]
        ent = beh["moves"][name]
        subs = call["subs"]
        g.scripts.clear()
        g.script("choice", name)
        # impose the element outcomes
        per_obj_calls = {}
        for mid, sub in zip(ent["elems"], subs):
            m = objs[mid]
            per_obj_calls.setdefault(mid, []).append(bool(sub["ok"]))
            if ent["ctype"] in ("single", "plain"):
                # (a plain composite calls its elements one after the other, each exactly as if it stood alone)
                if sub["k"] == "disp" and sub["ok"]:
                    m.to_displace_labels = sub["lab"]
                elif sub["k"] == "exch":
                    if sub["dir"] == "del" and sub["ok"]:
                        m.to_delete_label = sub["lab"]
                    else:
                        m.to_add_atoms = tmpl.copy()
                        if sub.get("size", 0) == 2 * len(tmpl):
                            # a pre-selected particle of another size than the template (two template copies)
                            second = tmpl.copy()
                            second.positions += [0.9, 0.0, 0.0]
                            m.to_add_atoms = tmpl.copy() + second
            elif sub["k"] == "disp" and ent["ctype"] == "cdisp":
                pass
        if ent["ctype"] == "cdisp":
            # the composite draws a label for each element from its remaining candidates (unweighted choice);
            # an element the specification lets fail gets a veto, unless it has no candidate left
            displaced = []
            for mid, sub in zip(ent["elems"], subs):
                lab = np.asarray(objs[mid].labels)
                cands = sorted(set(int(x) for x in lab if x >= 0) - set(displaced))
                if not cands:
                    if sub["ok"]:
                        return ("replay:not-realisable", f"the specification lets element {mid} succeed with label {sub['lab']} but the code has no candidate", {"beh": beh})
                    continue
                if sub["ok"]:
                    g.script("choice_u", sub["lab"])
                    displaced.append(sub["lab"])
                else:
                    g.script("choice_u", cands[0])
        if ent["ctype"] == "cexch":
            oks = [sub for sub in subs if sub["ok"]]
            deleting = bool(oks) and oks[0]["dir"] == "del"
            # the composite draws its direction first: random() < bias_towards_insert (0.5) means insertion
            g.script("random", 0.9 if deleting else 0.1)
            if deleting:
                gone = []
                for mid, sub in zip(ent["elems"], subs):
                    lab = np.asarray(objs[mid].labels)
                    cands = sorted(set(int(x) for x in lab if x >= 0) - set(gone))
                    if sub["ok"]:
                        g.script("choice_u", sub["lab"])
                        gone.append(sub["lab"])
                    elif cands:
                        return ("replay:not-realisable", "a deleting composite cannot skip an element that has candidates", {})
        for mid, oks in per_obj_calls.items():
            # check_move is consulted once per call (max_attempts = 1): scripted in call order
            vetoes[mid].queue = []
        order = []
        for mid, sub in zip(ent["elems"], subs):
            order.append((mid, bool(sub["ok"])))
        # a single CallVeto per object: pop per consultation
        for mid in {m for m, _ in order}:
            seq = [ok for m, ok in order if m == mid]
            v = vetoes[mid]
            v.queue = seq

            def chk(*a, _v=v, **k):
                return _v.queue.pop(0) if _v.queue else True

            objs[mid].check_move = chk
        if end["verdict"] in ("acc", "rej"):
            verdicts.append(end["verdict"] == "acc")
        try:
            for st in mc.irun(1):
                for _ in st:
                    pass
        except Exception as ex:  # noqa: BLE001
            return (f"replay:raise:{type(ex).__name__}", f"replaying trial {name} {subs} verdict {end['verdict']} raised {ex!r}", {"beh": {k: beh[k] for k in ('driver', 'moves')}, "trial": t})
        if any(len(q) for q in g.scripts.values()):
            # the code did not ask its generator in the way the replay imposes choices (schedule by weighted choice,
            # composite label by unweighted choice, composite direction by random()): this behaviour cannot be imposed
            return ("replay:not-realisable", "scripted draws were not consumed", {})
        hv = mc.move_history[-1][1] if mc.move_history else "?"
        got_v = "none" if hv is None else ("acc" if hv else "rej")
        if got_v != end["verdict"]:
            # a deletion / displacement with no eligible label fails in the code although the spec says ok, or vice versa
            return ("replay:verdict", f"trial {name} {subs}: the code recorded '{got_v}', the behaviour says '{end['verdict']}'", {"trial": t})
        o, alts = observed(P)
        want = dict(end["s"])
        # energy ownership sets: adopt the member that matches the expected structure
        for f in ("lastE", "lastRes", "calcRes"):
            o[f] = alts[f][0]
        wc = canon(want)
        best = None
        import itertools

        for combo in itertools.product(*[range(len(alts[f])) for f in ("lastE", "lastRes", "calcRes")]):
            for f, i in zip(("lastE", "lastRes", "calcRes"), combo):
                o[f] = alts[f][i]
            oc = canon(o)
            diff = [k for k in wc if wc[k] != oc[k]]
            if "labels" in diff and labels_equiv(t[0]["s"]["labels"], {m: beh["mobj"][m]["defLabel"] for m in beh["mobj"]}, wc["labels"], oc["labels"]):
                diff.remove("labels")
            if best is None or len(diff) < len(best):
                best = diff
            if not diff:
                break
        if best:
            kinds = "+".join(sorted({beh["mobj"][m]["kind"] for m in ent["elems"]}))
            return (f"replay:state:{','.join(best)}:{end['verdict']}:{beh['driver']}:{ent['ctype']}:{kinds}", f"{beh['driver']}: after trial {name} {[(s['k'], s.get('dir'), s['lab'], s['ok']) for s in subs]} with verdict {end['verdict']} the fields {best} differ from the specification's state", {"trial": t, "observed": o, "moves": beh["moves"]})
    return None


def generate(tier, out_path, timeout=1800):
    cfg = "MC_QMC_Replay.cfg"
    meta = tempfile.mkdtemp(prefix="tlcmeta_")
    try:
        with open(out_path, "w") as f:
            p = subprocess.run(["java", "-XX:+UseParallelGC", "-Xmx8g", "-cp", JAR, "tlc2.TLC", "-workers", "1", "-metadir", meta, "-noGenerateSpecTE", "-deadlock", "-config", cfg, "MC_QMC_Replay"],
                               cwd=SPEC, stdout=f, stderr=subprocess.STDOUT, timeout=timeout)
        return p.returncode
    finally:
        shutil.rmtree(meta, ignore_errors=True)
