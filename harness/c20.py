"""C20 -- drivers use custom moves and criteria only through the documented protocol
(spec/Protocol.tla).  TLC enumerates every behaviour (driver x sequence of trials with
the entry chosen, the move's truthy/falsy result and the criteria's verdict x optional
serialization point) with the expected sequence of calls on user objects; each behaviour is
replayed on the real driver with strict user objects that inherit from nothing in the
package and log (and refuse) every attribute access outside the protocol."""

from __future__ import annotations

import json
import os
import shutil
import tempfile
import warnings

import numpy as np
from ase import Atoms

from calcs import Harmonic
from common import Report
from scripted_rng import ScriptedGenerator
from tlc import run_tlc

LOG: list = []
RESULTS: list = []   # scripted results of the user move
VERDICTS: list = []  # scripted verdicts of the user criteria
TRUTHY = [True, 1, "yes", [0], 2.5]
FALSY = [False, 0, None, "", []]
KEPT: list = []   # (object handed to on_cell_changed, its value at that moment)

MOVE_API = {"on_atoms_changed", "on_cell_changed", "to_dict", "from_dict", "_tag"}
CRIT_API = {"evaluate", "to_dict", "from_dict", "_tag"}


class UserMove:
    """implements exactly the Move protocol; inherits from nothing in quansino"""

    def __init__(self, tag="U"):
        object.__setattr__(self, "_tag", tag)

    # value semantics: two user moves with the same configuration compare equal -- the driver must not rely on it
    def __eq__(self, other):
        LOG.append(("getattr", object.__getattribute__(self, "_tag"), "__eq__"))
        return isinstance(other, UserMove)

    def __hash__(self):
        return 7

    # a user object may well be falsy (an empty container of sub-moves, a history of verdicts of length 0 ...):
    # its truth value is not part of the protocol, the driver has no business asking for it
    def __bool__(self):
        LOG.append(("getattr", "U", "__bool__"))
        return False

    def __len__(self):
        LOG.append(("getattr", "U", "__len__"))
        return 0

    def __getattribute__(self, name):
        if name in MOVE_API or (name.startswith("__") and name.endswith("__")):
            return object.__getattribute__(self, name)
        LOG.append(("getattr", "U", name))
        raise AttributeError(f"UserMove has no attribute {name!r} (outside the documented protocol)")

    def __setattr__(self, name, value):
        LOG.append(("setattr", "U", name))
        raise AttributeError(f"the driver must not write {name!r} on a user move")

    def __call__(self, context):
        tag = object.__getattribute__(self, "_tag")
        LOG.append(("call", tag))
        r = RESULTS.pop(0)
        if r and tag == "W":
            # a user-defined cell move: pure shear, the volume is unchanged (det(1 + e E_xy) = 1)
            cell = np.asarray(context.atoms.cell.array, dtype=float)
            shear = np.eye(3)
            shear[0, 1] = 0.04
            context.atoms.set_cell(cell @ shear, scale_atoms=True)
        elif r:
            p = context.atoms.positions.copy()
            p[0] += 0.01
            context.atoms.positions = p
        return r

    def on_atoms_changed(self, added_indices, removed_indices):
        LOG.append(("on_atoms_changed", object.__getattribute__(self, "_tag"), [int(i) for i in np.asarray(added_indices).ravel()], [int(i) for i in np.asarray(removed_indices).ravel()]))

    def on_cell_changed(self, new_cell):
        LOG.append(("on_cell_changed", object.__getattribute__(self, "_tag"), np.asarray(new_cell).tolist()))
        # a user move may keep what it is told (a step length that follows the volume ...): what it keeps is its own
        KEPT.append((new_cell, np.array(new_cell, dtype=float, copy=True)))

    def to_dict(self):
        LOG.append(("to_dict", object.__getattribute__(self, "_tag")))
        return {"name": "UserMove", "kwargs": {"tag": object.__getattribute__(self, "_tag")}}

    @classmethod
    def from_dict(cls, data):
        LOG.append(("from_dict", data.get("kwargs", {}).get("tag", "U")))
        return cls(**data.get("kwargs", {}))


class UserCriteria:
    def __init__(self, tag="user"):
        object.__setattr__(self, "_tag", tag)

    def __bool__(self):
        LOG.append(("getattr", "criteria", "__bool__"))
        return False

    def __len__(self):
        LOG.append(("getattr", "criteria", "__len__"))
        return 0

    def __getattribute__(self, name):
        if name in CRIT_API or (name.startswith("__") and name.endswith("__")):
            return object.__getattribute__(self, name)
        LOG.append(("getattr", "criteria", name))
        raise AttributeError(f"UserCriteria has no attribute {name!r} (outside the documented protocol)")

    def __setattr__(self, name, value):
        LOG.append(("setattr", "criteria", name))
        raise AttributeError(f"the driver must not write {name!r} on a user criteria")

    def evaluate(self, context):
        LOG.append(("evaluate", object.__getattribute__(self, "_tag")))
        return VERDICTS.pop(0)

    def to_dict(self):
        LOG.append(("to_dict", "criteria"))
        return {"name": "UserCriteria", "kwargs": {"tag": object.__getattribute__(self, "_tag")}}

    @classmethod
    def from_dict(cls, data):
        LOG.append(("from_dict", "criteria"))
        return cls(**data.get("kwargs", {}))


def build(driver, seed=3):
    from quansino.mc.canonical import Canonical, HamiltonianCanonical
    from quansino.mc.core import MonteCarlo
    from quansino.mc.gcmc import GrandCanonical
    from quansino.mc.isobaric import Isobaric
    from quansino.mc.isotension import Isotension
    from quansino.moves.cell import CellMove
    from quansino.moves.exchange import ExchangeMove
    from quansino.operations.cell import IsotropicDeformation
    from quansino.operations.displacement import Translation
    from quansino.registry import register_class

    register_class(UserMove, "UserMove")
    register_class(UserCriteria, "UserCriteria")
    rs = np.random.RandomState(2)
    atoms = Atoms("Cu3", positions=rs.rand(3, 3) * 3 + 2, cell=[7, 7.5, 8], pbc=True)
    atoms.calc = Harmonic(k=0.1, centers=atoms.positions, eps=0.01, cellk=0.0003)
    kw = dict(max_cycles=1, seed=seed)
    if driver == "MonteCarlo":
        mc = MonteCarlo(atoms, **kw)
    elif driver == "Canonical":
        mc = Canonical(atoms, temperature=500.0, **kw)
    elif driver == "HamiltonianCanonical":
        mc = HamiltonianCanonical(atoms, temperature=500.0, **kw)
    elif driver == "Isobaric":
        mc = Isobaric(atoms, temperature=500.0, pressure=0.001, **kw)
    elif driver == "Isotension":
        mc = Isotension(atoms, temperature=500.0, pressure=0.001, external_stress=np.diag([0.001, 0.0, -0.001]), **kw)
    else:
        mc = GrandCanonical(atoms, exchange_atoms=Atoms("Cu", positions=[[0, 0, 0]]), temperature=500.0, chemical_potential=0.0, number_of_exchange_particles=3, **kw)
    mc.add_move(UserMove(), criteria=UserCriteria("user"), name="user")
    if driver == "GrandCanonical":
        # a value-equal twin (distinct object): never scheduled, must still be notified
        mc.add_move(UserMove("V"), criteria=UserCriteria("twin"), name="user_twin", probability=1e-9)
        mc.add_move(ExchangeMove(np.arange(3), Translation(), bias_towards_insert=1.0), criteria=UserCriteria("exch"), name="exch")
        # one trial that deletes a particle and inserts another: a generic composite of a deleting and an inserting move
        from quansino.moves.composite import CompositeMove

        mc.add_move(CompositeMove([ExchangeMove(np.arange(3), Translation(), bias_towards_insert=0.0), ExchangeMove(np.arange(3), Translation(), bias_towards_insert=1.0)]),
                    criteria=UserCriteria("swap"), name="swap")
    if driver in ("Isobaric", "Isotension"):
        mc.add_move(CellMove(IsotropicDeformation(0.03)), criteria=UserCriteria("cell"), name="cell")
        mc.add_move(UserMove("W"), criteria=UserCriteria("shear"), name="shear")
    return mc


def install_rng(mc):
    g = ScriptedGenerator(11)
    mc._rng = g
    mc.context.rng = g
    return g


def run(tier: str) -> int:
    from ase.io.jsonio import decode, encode

    rep = Report("C20", tier, "model_checking")
    warnings.simplefilter("ignore")
    tmp = tempfile.mkdtemp(prefix="c20_")
    try:
        out = os.path.join(tmp, "proto.ndjson")
        env = {"PROTO_OUT": out}
        if tier == "thorough":
            env["PROTO_N"] = "4"
        r = run_tlc("Protocol", "MC_Protocol.cfg", workers=8, env=env, timeout=1800)
        if not r.ok:
            if r.invariant_violated:
                rep.violation(f"model:{r.invariant_violated[0]}", f"TLC: {r.invariant_violated[0]} violated in Protocol.tla", {"tlc": r.out[-2000:]})
            else:
                rep.error(f"TLC failed on Protocol: {r.out[-1200:]}")
            return rep.finish()
        cases = [json.loads(l) for l in open(out)]
    finally:
        shutil.rmtree(tmp, ignore_errors=True)
    n = 0
    for ci, c in enumerate(cases):
        driver, trials = c["driver"], c["trials"]
        ser = c["serialize_after"] == 1 and len(trials) > 1
        n += 1
        rep.count(json.dumps([driver, trials, ser]), nontrivial=len(trials) > 1)
        if n % 200 == 1:
            rep.sample(c)
        del LOG[:], RESULTS[:], VERDICTS[:], KEPT[:]
        ctx = {"case": c}
        try:
            mc = build(driver)
            g = install_rng(mc)
            hist = []
            notes = []
            segments = [trials[:1], trials[1:]] if ser else [trials]
            for si, seg in enumerate(segments):
                if not seg:
                    continue
                mc.max_cycles = len(seg)  # all trials of the segment happen within one step
                n_before = len(mc.atoms)
                for ti, t in enumerate(seg):
                    g.script("choice", t["entry"])
                    if t["entry"] in ("user", "shear"):
                        RESULTS.append((TRUTHY if t["res"] else FALSY)[(ci + ti) % 5])
                    if t["res"]:
                        # evaluate() is documented to return a bool: only the two bool spellings
                        VERDICTS.append([bool(t["acc"]), np.bool_(t["acc"])][(ci + ti) % 2])
                # observe after every trial of the step
                for name in mc.irun(1):
                    for _ in name:
                        pass
                if g.scripts.get("choice"):
                    rep.error(f"{driver}: the schedule could not be imposed through the simulation's generator (scripted choices not consumed)")
                    g.scripts.clear()
                for (hn, hv), t in zip(mc.move_history, seg):
                    hist.append((str(hn), "none" if hv is None else ("acc" if hv else "rej")))
                for t in seg:
                    if t["acc"] and t["entry"] == "exch":
                        n_before += 1
                        notes.append(("atoms", [n_before - 1], 0))
                        notes.append(("atoms", [n_before - 1], 0))  # one per distinct user move (U and V)
                    if t["acc"] and t["entry"] == "swap":
                        # one atom removed, one appended: the count is unchanged, the new atom is the last one
                        notes.append(("atoms", [n_before - 1], 1))
                        notes.append(("atoms", [n_before - 1], 1))
                    if t["acc"] and t["entry"] in ("cell", "shear"):
                        notes.append(("cell", None, 0))
                        notes.append(("cell", None, 0))  # one per distinct user move (U and W)
                if len(mc.move_history) != len(seg):
                    hist.append(("?", f"{len(mc.move_history)} trials recorded"))
                if ser and si == 0:
                    d = decode(encode(mc.to_dict()))
                    calc = mc.atoms.calc
                    mc.close()
                    mc = type(mc).from_dict(d)
                    mc.atoms.calc = Harmonic(k=calc.k, centers=calc.centers, eps=calc.eps, cellk=calc.cellk)
                    g = install_rng(mc)
            if ser:
                mc.to_dict()  # serialized again at the end, twice (the same object): every user component is asked each time
                mc.to_dict()
            mc.close()
        except Exception as ex:  # noqa: BLE001
            outside = [e for e in LOG if e[0] in ("getattr", "setattr")]
            if outside:
                e = outside[0]
                rep.violation(f"outside-protocol:{e[0]}:{e[1]}:{e[2]}:{driver}", f"{driver}: the driver {e[0]}s attribute '{e[2]}' of a user {'move' if e[1] == 'U' else 'criteria'} (not part of the protocol); run raised {type(ex).__name__}", dict(ctx, log=LOG[-8:]))
            else:
                rep.violation(f"raise:{driver}:{type(ex).__name__}", f"{driver}: replaying {trials} raised {type(ex).__name__}: {str(ex)[:160]}", dict(ctx, log=LOG[-8:]))
            continue
        for obj, val in KEPT:
            if not np.array_equal(np.asarray(obj, dtype=float), val):
                rep.violation(f"notification-value-rewritten:on_cell_changed:{driver}", f"{driver}: the cell a user move was handed by on_cell_changed was rewritten by the driver afterwards (the move was given the driver's live cell, not the accepted value): was {val.tolist()}, is {np.asarray(obj).tolist()}", ctx)
                break
        outside = [e for e in LOG if e[0] in ("getattr", "setattr")]
        for e in outside[:1]:
            rep.violation(f"outside-protocol:{e[0]}:{e[1]}:{e[2]}:{driver}", f"{driver}: the driver {e[0]}s attribute '{e[2]}' of a user {'move' if e[1] == 'U' else 'criteria'} (not part of the protocol)", dict(ctx, log=LOG[-8:]))
        # a notification with nothing added and nothing removed announces no change: the statement neither
        # requires nor forbids it, so it is not judged
        got = [[e[0], e[1]] for e in LOG if e[0] not in ("getattr", "setattr") and not (e[0] == "on_atoms_changed" and not e[2] and not e[3])]
        def normal(seq):
            """the order inside a serialization block (to_dict / from_dict calls) and inside a block of
            notifications is not part of the statement: sort each contiguous block"""
            out, block, kind = [], [], None
            for e in seq:
                k = "ser" if e[0] in ("to_dict", "from_dict") else ("note" if e[0].startswith("on_") else None)
                if k != kind and block:
                    out += sorted(block)
                    block = []
                kind = k
                if k is None:
                    out.append(e)
                else:
                    block.append(e)
            return out + sorted(block)

        if normal(got) != normal(c["log"]):
            # name the first divergence
            i = next((k for k, (a, b) in enumerate(zip(got, c["log"])) if a != b), min(len(got), len(c["log"])))
            want = c["log"][i] if i < len(c["log"]) else ["<nothing>", ""]
            have = got[i] if i < len(got) else ["<nothing>", ""]
            rep.violation(f"call-sequence:{driver}:expected-{want[0]}:got-{have[0]}", f"{driver}: calls on the user objects were {got}, the protocol machine says {c['log']} (trials {trials})", dict(ctx, got=got))
            continue
        if [h[1] for h in hist] != c["hist"] or [h[0] for h in hist] != [t["entry"] for t in trials]:
            rep.violation(f"history:{driver}", f"{driver}: move_history verdicts {hist}, expected {c['hist']} for trials {trials}", ctx)
        # arguments of the notifications
        k = 0
        for e in LOG:
            if e[0] == "on_atoms_changed" and (e[2] or e[3]):
                kind, want, nrem = notes[k][0], notes[k][1], (notes[k][2] if len(notes[k]) > 2 else 0)
                k += 1
                if kind != "atoms" or e[2] != want or len(e[3]) != nrem:
                    rep.violation(f"notification-arguments:on_atoms_changed:{driver}", f"{driver}: on_atoms_changed({e[2]}, {e[3]}) but the accepted trial added atoms {want} and removed {nrem}", ctx)
            elif e[0] == "on_cell_changed":
                kind = notes[k][0]
                k += 1
                if kind != "cell":
                    rep.violation(f"notification-arguments:on_cell_changed:{driver}", f"{driver}: on_cell_changed got a cell that is not the accepted one", ctx)
    # ---- the table is live: an entry the user replaces between the announcement of a trial and its execution (the hook
    # the step generator offers) is the one that is executed and judged ---------------------------------------------
    nswap = 0
    for driver in ("MonteCarlo", "Canonical", "HamiltonianCanonical", "Isobaric", "Isotension", "GrandCanonical"):
        for variant in ("assign", "add_move"):
            del LOG[:], RESULTS[:], VERDICTS[:], KEPT[:]
            nswap += 1
            rep.count(("swap-at-announcement", driver, variant), nontrivial=True)
            try:
                mc = build(driver)
                g = install_rng(mc)
                mc.max_cycles = 1
                g.script("choice", "user")
                RESULTS.append(True)
                VERDICTS.append(True)
                for step in mc.irun(1):
                    for name in step:
                        if str(name) == "user":
                            if variant == "assign":
                                mc.moves["user"].move = UserMove("X")
                                mc.moves["user"].criteria = UserCriteria("newcrit")
                            else:
                                mc.add_move(UserMove("X"), criteria=UserCriteria("newcrit"), name="user")
                mc.close()
            except Exception as ex:  # noqa: BLE001
                rep.violation(f"raise:swap-at-announcement:{driver}:{type(ex).__name__}", f"{driver}: replacing the announced entry before it is executed raised {ex!r}", {"driver": driver, "variant": variant, "log": LOG[-8:]})
                continue
            calls = [e for e in LOG if e[0] in ("call", "evaluate")]
            if calls != [("call", "X"), ("evaluate", "newcrit")]:
                rep.violation(f"swap-at-announcement:{variant}:{driver}", f"{driver}: the user replaced the entry 'user' ({variant}) after its announcement; executed / judged were {calls}, expected the new move X and the new criteria", {"driver": driver, "variant": variant, "log": LOG[-8:]})
    rep.add(swap_at_announcement_cases=nswap)
    rep.add(states=r.distinct, transitions=r.generated, traces_validated_against_impl=n, exhaustive=True,
            rule=f"every behaviour of Protocol.tla: driver in MonteCarlo/Canonical/HamiltonianCanonical/Isobaric/Isotension/GrandCanonical x sequence of <= {3 if tier == 'quick' else 4} trials (entry = user move, shipped exchange move (grand canonical) or shipped cell move (isobaric/isotension), each with a user criteria; move result truthy/falsy in 5 spellings; verdict truthy/falsy) x optional serialize-and-rebuild after the first trial, replayed with strict user objects; non-trivial = more than one trial")
    rep.assumptions += ["the strict objects allow dunder lookups (isinstance, call syntax) and refuse every other attribute outside the protocol", "the shipped exchange move of the table always inserts (bias 1), the schedule is imposed through the simulation's own generator"]
    return rep.finish()
