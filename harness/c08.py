"""C08 -- every shipped component survives serialization; any first import works.

(1) Imports.tla: CPython's import machine over the package's own top-level statements
    (extracted from the working tree at check time); TLC explores every public module as the
    first import; the verdict for each is compared with a fresh interpreter, both directions.
(2) Serial.tla: the round-trip ToDict -> Encode -> Decode -> lookup by registered name ->
    FromDict -> ToDict over the catalogue (introspected from the working tree) x parameter
    variations x nestings, enumerated by TLC; every enumerated configuration is executed in a
    fresh interpreter per first-import choice (serial_worker.py)."""

from __future__ import annotations

import json
import os
import shutil
import subprocess
import sys
import tempfile

from common import PY, REPO, SPEC, Report
from tlc import run_tlc

import extract_imports

HERE = os.path.dirname(os.path.abspath(__file__))


def interpreter_import(mod: str):
    env = dict(os.environ, PYTHONPATH=str(REPO / "src"), PYTHONWARNINGS="ignore")
    p = subprocess.run([PY, "-c", f"import {mod}"], capture_output=True, text=True, env=env, cwd="/tmp", timeout=120)
    return p.returncode == 0, (p.stderr.strip().splitlines() or [""])[-1]


def run_worker(first: str, cases_file: str, timeout=600):
    env = dict(os.environ, PYTHONPATH=str(REPO / "src") + ":" + HERE, PYTHONWARNINGS="ignore")
    p = subprocess.run([PY, os.path.join(HERE, "serial_worker.py"), first, cases_file], capture_output=True, text=True, env=env, cwd="/tmp", timeout=timeout)
    res = []
    for line in p.stdout.splitlines():
        if line.startswith("@@"):
            res.append(json.loads(line[2:]))
    return p.returncode, res, p.stderr[-1500:]


def run(tier: str) -> int:
    rep = Report("C08", tier, "model_checking")
    tmp = tempfile.mkdtemp(prefix="c08_")
    states = trans = 0
    try:
        # ---- (1) imports ------------------------------------------------------------------------
        mods = extract_imports.extract(str(REPO / "src"))
        for f in ("Imports.tla", "MC_Imports.cfg"):
            shutil.copy(SPEC / f, tmp)
        open(os.path.join(tmp, "ImportsData.tla"), "w").write(extract_imports.to_tla(mods))
        r = run_tlc("Imports", "MC_Imports.cfg", workers=1, timeout=900, cwd=tmp)
        states += r.distinct
        trans += r.generated
        verdicts = {}
        for line in r.out.splitlines():
            line = line.strip()
            if line.startswith('"@@'):
                d = json.loads(json.loads(line)[2:])
                verdicts[d["first"]] = d
        public = [m for m in sorted(mods) if not any(part.startswith("_") for part in m.split("."))]
        if r.rc != 0 or set(verdicts) != set(public):
            rep.error(f"TLC failed on Imports or did not judge every public module ({len(verdicts)}/{len(public)}): {r.out[-1200:]}")
        firsts_ok = []
        for m in public:
            v = verdicts.get(m)
            if v is None:
                continue
            ok, last = interpreter_import(m)
            rep.count(("import", m))
            if ok != v["ok"]:
                rep.error(f"import model and interpreter disagree on first import of {m}: model ok={v['ok']}, interpreter ok={ok} ({last})")
                continue
            if not ok:
                cyc = "->".join(x.split(".")[-2] + "." + x.split(".")[-1] if x.count(".") > 1 else x for x in v["stack"][1:])
                rep.violation(f"first-import-fails:{v['importer']}:{v['target']}:{v['name']}",
                              f"`import {m}` first in a fresh interpreter fails: {v['importer']} (line {v['line']}) needs `{v['name']}` from the partially initialised {v['target']}; import chain {' -> '.join(v['stack'][1:])}  [{last}]", {"first": m, "model": v})
            else:
                firsts_ok.append(m)
        if len(rep.samples) < 2:
            rep.sample({"first_import": public[:3], "model_verdicts": [verdicts[m]["ok"] for m in public[:3] if m in verdicts]})
        # ---- (2) serialization -------------------------------------------------------------------------
        cat_file = os.path.join(tmp, "catalogue.json")
        env = dict(os.environ, PYTHONPATH=str(REPO / "src") + ":" + HERE, PYTHONWARNINGS="ignore")
        p = subprocess.run([PY, os.path.join(HERE, "serial_worker.py"), "--catalogue", cat_file], capture_output=True, text=True, env=env, cwd="/tmp", timeout=300)
        if p.returncode != 0:
            rep.error(f"catalogue introspection failed: {p.stderr[-1500:]}")
            return rep.finish()
        cat = json.load(open(cat_file))
        for u in cat.get("uncovered", []):
            rep.error(f"catalogue: class {u} has to_dict/from_dict but the harness has no recipe to instantiate it (add one to serial_worker.py)")
        # Serial.tla enumerates class x parameter-subset x nesting
        open(os.path.join(tmp, "SerialData.tla"), "w").write(serial_data(cat))
        for f in ("Serial.tla", "MC_Serial.cfg"):
            shutil.copy(SPEC / f, tmp)
        cases_out = os.path.join(tmp, "cases.ndjson")
        r2 = run_tlc("Serial", "MC_Serial.cfg", workers=4, timeout=1800, cwd=tmp, env={"SER_OUT": cases_out, "SER_DEPTH": "2" if tier == "thorough" else "1"})
        states += r2.distinct
        trans += r2.generated
        if not r2.ok:
            rep.error(f"TLC failed on Serial: {r2.out[-1500:]}")
            return rep.finish()
        cases = [json.loads(l) for l in open(cases_out)]
        cases_file = os.path.join(tmp, "cases.json")
        json.dump(cases, open(cases_file, "w"))
        # which first imports: all (thorough) or a sample that always contains one module of every sub-package
        firsts = firsts_ok if tier == "thorough" else sorted(({m for m in firsts_ok if m.count(".") <= 1 and m not in ("quansino.constraints", "quansino.type_hints", "quansino.protocols")} | {"quansino.moves.exchange", "quansino.utils.moves"}) & set(firsts_ok))
        seen_sigs = set()
        nexec = 0
        from concurrent.futures import ThreadPoolExecutor

        def job(arg):
            fi, first = arg
            # thorough: the complete enumeration for three first imports, every 12th case for the others
            if tier == "thorough" and fi >= 3:
                return first, run_worker(first, sub_file, timeout=3000)
            return first, run_worker(first, cases_file, timeout=3000)

        sub_file = os.path.join(tmp, "cases_sub.json")
        json.dump([c if i % 12 == 0 else None for i, c in enumerate(cases)], open(sub_file, "w"))
        with ThreadPoolExecutor(max_workers=12) as ex:
            results = list(ex.map(job, list(enumerate(firsts))))
        for fi, (first, (rc, res, err)) in enumerate(results):
            if rc not in (0, 1) or not res:
                rep.error(f"serialization worker failed for first import {first}: rc={rc} {err}")
                continue
            for row in res:
                nexec += 1
                rep.count(("case", row["id"], row.get("variant", 0)), nontrivial=True)
                if fi == 0 and len(rep.samples) < 6 and row["id"] % 37 == 0:
                    rep.sample({"first_import": first, "case": cases[row["id"]], "result": row["status"]})
                if row["status"] != "ok":
                    sig = f"{row['status']}:{row['cls']}:{row.get('detail_key', '')}"
                    if (sig, first) in seen_sigs:
                        continue
                    seen_sigs.add((sig, first))
                    rep.violation(sig, f"{row['cls']}: {row['message']} (first import {first})", {"case": cases[row["id"]], "first_import": first, "row": row})
        # ---- readers that never built the objects: a fresh interpreter imports `first`, then only the sub-package that owns
        # the top-level class, and rebuilds every document by registered name ------------------------------------------------
        docs_file = os.path.join(tmp, "docs.json")
        env = dict(os.environ, PYTHONPATH=str(REPO / "src") + ":" + HERE, PYTHONWARNINGS="ignore")
        pw = subprocess.run([PY, os.path.join(HERE, "serial_worker.py"), "--write", sub_file if tier == "quick" else cases_file, docs_file], env=env, capture_output=True, text=True, timeout=1800)
        if pw.returncode != 0 or not os.path.exists(docs_file):
            rep.error(f"serialization writer failed: {pw.stderr[-600:]}")
        else:
            owners = ["quansino.operations", "quansino.integrators", "quansino.moves", "quansino.mc"]
            rfirsts = ["quansino.registry", "quansino.utils", "quansino.io"] + (["quansino.constraints", "quansino.operations.displacement"] if tier == "thorough" else [])

            def rjob(arg):
                first, owner = arg
                pr = subprocess.run([PY, os.path.join(HERE, "serial_worker.py"), "--read", first, owner, docs_file], env=env, capture_output=True, text=True, timeout=1800)
                rows = [json.loads(l[2:]) for l in pr.stdout.splitlines() if l.startswith("@@")]
                return first, owner, pr.returncode, rows, pr.stderr[-400:]

            with ThreadPoolExecutor(max_workers=12) as ex:
                rres = list(ex.map(rjob, [(f, o) for f in rfirsts for o in owners]))
            nread = 0
            for first, owner, rc, rows, err in rres:
                if rc != 0:
                    rep.error(f"serialization reader failed (first import {first}, owner {owner}): {err}")
                    continue
                for row in rows:
                    nread += 1
                    rep.count(("reader", first, owner, row["id"]), nontrivial=True)
                    if row["status"] != "ok":
                        sig = f"{row['status']}:{row['cls']}:{row.get('detail_key', '')}"
                        if (sig, owner) in seen_sigs:
                            continue
                        seen_sigs.add((sig, owner))
                        rep.violation(sig, f"{row['cls']}: {row['message']}", {"first_import": first, "owner": owner, "row": row})
            rep.add(reader_rebuilds=nread)
    finally:
        shutil.rmtree(tmp, ignore_errors=True)
    sr, nr = registry_layer(rep, tier)
    states += sr
    rep.add(registry_histories=nr)
    rep.add(states=states, transitions=trans, traces_validated_against_impl=nexec + len(rep._distinct), exhaustive=True, first_imports=len(public), classes=len(cat["classes"]) if "cat" in dir() else 0,
            rule="(1) every public module as the first import: model verdict vs fresh interpreter; (2) every configuration enumerated by Serial.tla (class of the introspected catalogue x subset of parameters set to a non-default value x nesting shape) executed in a fresh interpreter for each first-import choice of the tier; distinct = distinct (configuration) / first import")
    rep.assumptions += ["function-local imports and `if TYPE_CHECKING:` blocks do not execute at import time (dropped by the extractor)", "non-default values are chosen per parameter type by the worker's recipes; callables are excepted as the statement says"]
    return rep.finish()


def registry_layer(rep, tier):
    """Registry.tla: every history of register_class / register(...) calls followed by one query, enumerated by
    TLC, replayed on the real registry (fresh classes per case, so the global table is not disturbed)."""
    import json as _json

    from quansino import registry

    env = {"REG_LEN": "5"} if tier == "thorough" else {}
    r = run_tlc("Registry", "MC_Registry.cfg", workers=1, env=env, timeout=1500)
    if not r.ok:
        if r.invariant_violated:
            rep.violation(f"model:registry:{r.invariant_violated[0]}", "TLC: Registry.tla violated", {"tlc": r.out[-2000:]})
        else:
            rep.error(f"TLC failed on Registry: {r.out[-1200:]}")
        return 0, 0
    n = 0
    for line in r.out.splitlines():
        line = line.strip()
        if not line.startswith('"@@'):
            continue
        case = _json.loads(_json.loads(line)[2:])
        hist = case["hist"]
        if any(h[0] != "register" for h in hist[:-1]):
            continue  # queries do not change the registry: only histories whose single query comes last are replayed
        n += 1
        tag = f"_reg{n}"
        B = type("B" + tag, (), {})
        D = type("D" + tag, (B,), {})
        X = type("X" + tag, (), {})
        cls = {"B": B, "D": D, "X": X}
        name = {"B": "B" + tag, "D": "D" + tag, "X": "X" + tag, "alias": "alias" + tag}
        back = {v: k for k, v in cls.items()}
        try:
            for k, (op, a, b) in enumerate(hist[:-1]):
                if b == a:  # default name = the class's own name
                    if k % 2:
                        registry.register()(cls[a])
                    else:
                        registry.register_class(cls[a])
                elif k % 2:
                    registry.register(name[b])(cls[a])
                else:
                    registry.register_class(cls[a], name[b])
            op, a, b = hist[-1]
            try:
                if op == "get_class":
                    got = back[registry.get_class(name[a])]
                elif op == "get_class_name":
                    got = registry.get_class_name(cls[a])
                    got = {v: k for k, v in name.items()}.get(got, got)
                else:
                    got = back[registry.get_typed_class(name[a], cls[b])]
            except KeyError:
                got = "KeyError"
            except TypeError:
                got = "TypeError"
        except Exception as ex:  # noqa: BLE001
            rep.violation(f"registry:raise:{type(ex).__name__}", f"registry history {hist} raised {ex!r}", {"case": case})
            continue
        want = case["out"]
        if op == "get_class_name" and want in name:
            pass
        rep.count(("registry", _json.dumps(hist)), nontrivial=len(hist) > 1)
        if n % 700 == 1:
            rep.sample({"registry_history": hist, "expected": want})
        if got != want:
            rep.violation(f"registry:{op}", f"after {hist[:-1]} the query {hist[-1]} gives {got!r}; Registry.tla says {want!r}", {"case": case})
    return r.distinct, n


def serial_data(cat) -> str:
    q = lambda s: '"' + s + '"'  # noqa: E731
    lines = ["---- MODULE SerialData ----", "\\* generated from the introspected catalogue at check time", "EXTENDS Sequences", ""]
    cl = cat["classes"]
    lines.append("Classes == {" + ", ".join(q(c["name"]) for c in cl) + "}")
    lines.append("Params == [c \\in Classes |->\n  CASE " + "\n    [] ".join(f"c = {q(c['name'])} -> {{" + ", ".join(q(p) for p in c["params"]) + "}" for c in cl) + "\n]")
    lines.append("Role == [c \\in Classes |->\n  CASE " + "\n    [] ".join(f"c = {q(c['name'])} -> {q(c['role'])}" for c in cl) + "\n]")
    lines.append("Children == [c \\in Classes |->\n  CASE " + "\n    [] ".join(f"c = {q(c['name'])} -> {q(c['children'])}" for c in cl) + "\n]")
    lines.append("====")
    return "\n".join(lines) + "\n"
