"""C04 -- engine traces validated against spec/QMC.tla (see qcheck.py)."""
from qcheck import engine_check


def run(tier):
    return engine_check("C04", tier)


def replay(record):
    from qcheck import replay as r

    return r(record)
