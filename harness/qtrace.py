"""Record a batch of engine traces (multiprocess) and validate them with TLC
against spec/QMC_Trace.tla.  Returns the traces and TLC's per-event verdicts."""

from __future__ import annotations

import json
import os
import tempfile
from multiprocessing import Pool

from common import jsonable
from tlc import run_tlc


def record_one(arg):
    seed, family = arg
    import warnings

    warnings.simplefilter("ignore")
    import qscen
    from qrec import Recorder, _Rec

    _Rec.log = []
    _Rec.depth = 0
    try:
        sc = qscen.build(seed, family)
        rec = Recorder(sc.mc, sc.fresh, meta=sc.meta, on_yield=sc.controller)
        rec.veto_active = sc.veto_active
        tr = rec.run(sc.steps, edit=getattr(sc, "edit", None), steps2=getattr(sc, "steps2", 0), reset_energy=getattr(sc, "reset_energy", True))
        try:
            sc.mc.close()
        except Exception:  # noqa: BLE001
            pass
        return jsonable(tr)
    except Exception as ex:  # noqa: BLE001  harness failure (not a verdict)
        import traceback

        return {"harness_error": f"{type(ex).__name__}: {ex}", "tb": traceback.format_exc(), "seed": seed, "family": family}


def record_batch(seeds_families, procs=14):
    with Pool(processes=procs) as pool:
        # (a recorded run that never returns must not hang the check: generous budget, then a machinery failure)
        out = pool.map_async(record_one, seeds_families, chunksize=4).get(timeout=1800 + len(seeds_families))
    return out


def validate(traces, timeout=1500):
    """-> (failures: list of dict with tid/l/kind/what/..., done: {tid: (events, nbad)}, tlc result)"""
    tmp = tempfile.mkdtemp(prefix="qtrace_")
    path = os.path.join(tmp, "traces.json")
    try:
        with open(path, "w") as f:
            json.dump(traces, f)
        r = run_tlc("QMC_Trace", "QMC_Trace.cfg", workers=1, env={"TRACE_FILE": path}, timeout=timeout)
    finally:
        import shutil

        shutil.rmtree(tmp, ignore_errors=True)
    fails, done = [], {}
    for line in r.out.splitlines():
        line = line.strip()
        if line.startswith('"@@'):
            d = json.loads(json.loads(line)[2:])
            if "done" in d:
                done[d["tid"]] = (d["done"], d["nbad"])
            else:
                fails.append(d)
    return fails, done, r
