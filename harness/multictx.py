"""MultiContexts.tla -> code: every history of trials / saves / reverts on a family of two systems enumerated by TLC is
replayed on a real quansino.mc.contexts.MultiContexts whose members are real contexts driven by real moves; after every
step each member's live state and what it remembers must be the states the specification names (up to renaming of
tokens: equal tokens <=> equal digests)."""

from __future__ import annotations

import hashlib
import json

import numpy as np
from ase import Atoms

from tlc import run_tlc

PAIRS = [("disp", "disp"), ("disp", "deform"), ("exch", "disp"), ("deform", "exch"), ("ham", "exch"), ("exch", "exch"), ("deform", "ham")]


def _digest(atoms):
    h = hashlib.sha1()
    h.update(atoms.get_positions().tobytes())
    h.update(np.asarray(atoms.cell.array).tobytes())
    h.update(atoms.numbers.tobytes())
    h.update(atoms.get_momenta().tobytes())
    return h.hexdigest()[:16]


def _remembered(kind, ctx, n_saved, numbers_saved):
    """what the member remembers, as a digest comparable with _digest of the live system it was saved from"""
    h = hashlib.sha1()
    h.update(np.asarray(ctx.last_positions).tobytes())
    cell = getattr(ctx, "last_cell", None)
    h.update(np.asarray(cell.array if cell is not None and hasattr(cell, "array") else (cell if cell is not None else ctx.atoms.cell.array)).tobytes())
    h.update(numbers_saved.tobytes())
    mom = getattr(ctx, "last_momenta", None)
    h.update(np.asarray(mom if mom is not None else np.zeros((n_saved, 3))).tobytes())
    return h.hexdigest()[:16]


class Member:
    def __init__(self, kind, rs, gen):
        from quansino.integrators.displacement import Verlet
        from quansino.mc.contexts import DeformationContext, DisplacementContext, ExchangeContext, HamiltonianDisplacementContext

        self.kind = kind
        n = int(rs.randint(2, 5))
        self.atoms = Atoms(["Cu", "Al", "Au", "Pt"][:n], positions=rs.rand(n, 3) * 3 + 2, cell=[8.0, 8.5, 9.0], pbc=True)
        self.atoms.calc = _calc()
        cls = {"disp": DisplacementContext, "deform": DeformationContext, "exch": ExchangeContext, "ham": HamiltonianDisplacementContext}[kind]
        self.ctx = cls(self.atoms, gen)
        self.ctx.temperature = 300.0
        if kind == "exch":
            self.ctx.exchange_atoms = Atoms("He", positions=[[0.0, 0.0, 0.0]])
            self.ctx.chemical_potential = 0.0
        if kind == "ham":
            self.verlet = Verlet(dt=1.0, max_steps=3)
        self.rs = rs
        self.ntry = 0
        # the member's own first save (a driver validates / saves before the first trial)
        self.ctx.save_state()
        self.numbers_saved = self.atoms.numbers.copy()

    def try_move(self):
        from quansino.moves.cell import CellMove
        from quansino.moves.displacement import DisplacementMove, HamiltonianDisplacementMove
        from quansino.moves.exchange import ExchangeMove
        from quansino.operations.cell import IsotropicDeformation
        from quansino.operations.displacement import Ball, Translation

        self.ntry += 1
        n = len(self.atoms)
        if self.kind == "disp":
            ok = DisplacementMove(np.arange(n), Ball(0.3))(self.ctx)
        elif self.kind == "deform":
            ok = CellMove(IsotropicDeformation(0.05))(self.ctx)
        elif self.kind == "ham":
            ok = HamiltonianDisplacementMove(operation=self.verlet)(self.ctx)
        else:
            insert = n <= 1 or (self.ntry % 2 == 1)
            mv = ExchangeMove(np.arange(n), Translation(), bias_towards_insert=1.0 if insert else 0.0)
            if not insert:
                mv.to_delete_label = 0   # the oldest atom: a deletion never undoes an earlier insertion (tokens stay fresh)
            ok = mv(self.ctx)
        return bool(ok)

    def note_saved(self):
        self.numbers_saved = self.atoms.numbers.copy()

    def cur(self):
        return _digest(self.atoms)

    def saved(self):
        return _remembered(self.kind, self.ctx, len(self.numbers_saved), self.numbers_saved)


_WELLS = None


def _calc():
    from ase.calculators.calculator import Calculator, all_changes

    global _WELLS
    if _WELLS is None:   # one class for all members (a class per call makes interpreter shutdown quadratic)
        class Wells(Calculator):
            implemented_properties = ("energy", "forces")

            def calculate(self, atoms=None, properties=("energy",), system_changes=all_changes):
                super().calculate(atoms, properties, system_changes)
                p = self.atoms.get_positions() - 4.0
                self.results = {"energy": float(0.05 * (p**2).sum() + 1e-3 * self.atoms.cell.volume), "forces": -0.1 * p}

        _WELLS = Wells
    return _WELLS()


def multi_contexts_layer(rep, tier):
    from quansino.mc.contexts import MultiContexts

    env = {"MULTI_LEN": "5"} if tier == "thorough" else {}
    r = run_tlc("MultiContexts", "MC_MultiContexts.cfg", workers=4, env=env, timeout=900)
    if not r.ok:
        if r.invariant_violated or r.property_violated:
            rep.violation(f"model:multi:{(r.invariant_violated or r.property_violated or ['?'])[0]}", "TLC: MultiContexts.tla violated", {"tlc": r.out[-2000:]})
        else:
            rep.error(f"TLC failed on MultiContexts: {r.out[-1200:]}")
        return 0, 0
    cases = []
    for line in r.out.splitlines():
        line = line.strip()
        if line.startswith('"@@'):
            cases.append(json.loads(json.loads(line)[2:]))
    stride = 1 if tier == "thorough" else 3
    n = 0
    ops = 0
    for ci, case in enumerate(cases):
        if ci % stride:
            continue
        kinds = PAIRS[ci % len(PAIRS)]
        rs = np.random.RandomState((rep.seed * 7919 + ci) % 2**32)
        gen = np.random.default_rng(int(rs.randint(1, 2**31)))
        try:
            members = [Member(k, rs, gen) for k in kinds]
            multi = MultiContexts([m.ctx for m in members])
        except Exception as ex:  # noqa: BLE001
            rep.error(f"multi-context layer could not build members {kinds}: {ex!r}")
            break
        n += 1
        tok: dict[int, str] = {}   # spec token -> digest
        back: dict[str, int] = {}

        def bind(t, d):
            if t in tok:
                return tok[t] == d
            if d in back:
                return back[d] == t
            tok[t] = d
            back[d] = t
            return True

        okcase = all(bind(i + 1, m.cur()) for i, m in enumerate(members))
        trail = []
        for st in case["steps"]:
            op, i = st["op"], st["i"]
            trail.append((op, i))
            try:
                if op == "try":
                    if not members[i - 1].try_move():
                        break   # the move found nothing to do (e.g. no room): the history cannot be realised further
                elif op == "save_all":
                    multi.save_state()
                    for m in members:
                        m.note_saved()
                elif op == "revert_all":
                    multi.revert_state()
                elif op == "save":
                    members[i - 1].ctx.save_state()
                    members[i - 1].note_saved()
                elif op == "revert":
                    members[i - 1].ctx.revert_state()
            except Exception as ex:  # noqa: BLE001
                rep.violation(f"multi-contexts:raise:{op}:{type(ex).__name__}", f"C03 (family of systems): {op} after {trail[:-1]} on members {kinds} raised {ex!r}", {"kinds": kinds, "steps": case["steps"], "at": len(trail)})
                okcase = False
                break
            ops += 1
            for j, m in enumerate(members):
                good_cur = bind(st["cur"][j], m.cur())
                good_saved = bind(st["saved"][j], m.saved())
                if not (good_cur and good_saved):
                    which = "live state" if not good_cur else "remembered state"
                    rep.violation(f"multi-contexts:{op}:{kinds[j]}:{'cur' if not good_cur else 'saved'}",
                                  f"C03 (family of systems): after {trail} on members {kinds}, the {which} of member {j + 1} ({kinds[j]}) is not the one MultiContexts.tla names (token {st['cur'][j] if not good_cur else st['saved'][j]})",
                                  {"kinds": kinds, "steps": case["steps"], "at": len(trail), "member": j + 1})
                    okcase = False
            if not okcase:
                break
        rep.count(("multi", kinds, tuple(tuple(x) for x in trail)), nontrivial=any(o in ("revert_all", "save_all") for o, _ in trail))
        if n % 400 == 1:
            rep.sample({"multi_contexts_members": kinds, "history": trail})
    rep.add(multi_context_histories=n, multi_context_operations=ops)
    return r.distinct, n
