"""Runs in a FRESH interpreter:  serial_worker.py <first-import> <cases.json>
                        or:  serial_worker.py --catalogue <out.json>

Recipes say, per class, which constructor parameters / documented tunables exist, what a
non-default value is, and how to compare; the set of classes itself comes from walking the
package (a serializable class without a recipe is reported as uncovered)."""

from __future__ import annotations

import importlib
import inspect
import json
import pkgutil
import sys
import warnings

warnings.simplefilter("ignore")


def np_():
    import numpy as np

    return np


def equal(a, b):
    np = np_()
    from ase import Atoms

    if isinstance(a, Atoms) or isinstance(b, Atoms):
        if not (isinstance(a, Atoms) and isinstance(b, Atoms)) or len(a) != len(b):
            return False
        return bool(np.array_equal(a.numbers, b.numbers) and np.array_equal(a.positions, b.positions) and np.array_equal(a.cell.array, b.cell.array) and np.array_equal(a.pbc, b.pbc))
    if isinstance(a, dict) and isinstance(b, dict):
        return set(map(str, a)) == set(map(str, b)) and all(equal(v, b[k] if k in b else b.get(str(k), b.get(_int(k)))) for k, v in a.items())
    if isinstance(a, (list, tuple)) and isinstance(b, (list, tuple)):
        return len(a) == len(b) and all(equal(x, y) for x, y in zip(a, b))
    if isinstance(a, np.ndarray) or isinstance(b, np.ndarray):
        try:
            a2, b2 = np.asarray(a), np.asarray(b)
            return a2.shape == b2.shape and bool(np.array_equal(a2, b2))
        except Exception:  # noqa: BLE001
            return False
    if hasattr(a, "array") and hasattr(b, "array"):  # ase Cell
        return bool(np.array_equal(np.asarray(a.array), np.asarray(b.array)))
    if isinstance(a, float) and isinstance(b, float) and a != a and b != b:
        return True
    try:
        return bool(a == b)
    except Exception:  # noqa: BLE001
        return False


def _int(k):
    try:
        return int(k)
    except Exception:  # noqa: BLE001
        return k


# --------------------------------------------------------------------------------------------------
# recipes: class name -> dict(role, children, params: {name: (default, nondefault, kind)})
#   kind "ctor": constructor keyword; "attr": tunable attribute set after construction;
#   "ctor_req": required constructor argument (default value used when not in `set`)
# --------------------------------------------------------------------------------------------------
def recipes():
    np = np_()
    from ase import Atoms

    mask = np.array([[True, False, False], [False, True, False], [False, False, True]])
    stress = np.array([[0.01, 0.002, 0.0], [0.002, -0.03, 0.001], [0.0, 0.001, 0.02]])
    R = {}
    for c in ("Ball", "Box", "Sphere"):
        R[c] = dict(role="operation", children="", params={"step_size": (1.0, 0.37, "ctor")})
    for c in ("Translation", "Rotation", "TranslationRotation"):
        R[c] = dict(role="operation", children="", params={})
    for c in ("IsotropicDeformation", "AnisotropicDeformation", "ShapeDeformation"):
        R[c] = dict(role="operation", children="", params={"max_value": (0.05, 0.11, "ctor_req"), "mask": (None, mask, "ctor")})
    R["CompositeOperation"] = dict(role="operation", children="operations", params={})
    R["Verlet"] = dict(role="integrator", children="", params={"dt": (1.0, 2.5, "ctor"), "max_steps": (100, 7, "ctor"), "apply_constraints": (True, False, "ctor")})
    R["DisplacementMove"] = dict(role="move", children="operation", params={"labels": ([0, 1, 2], [2, -1, 2, 5], "ctor_req"), "apply_constraints": (True, False, "ctor"), "default_label": (None, 3, "attr"), "max_attempts": (10000, 17, "attr")})
    R["ExchangeMove"] = dict(role="move", children="operation", params={"labels": ([0, 1, 2], [2, -1, 2, 5], "ctor_req"), "apply_constraints": (True, False, "ctor"), "bias_towards_insert": (0.5, 0.3, "ctor"), "default_label": (None, 0, "attr"), "max_attempts": (10000, 17, "attr")})
    R["CellMove"] = dict(role="move", children="operation", params={"scale_atoms": (True, False, "ctor"), "apply_constraints": (True, False, "ctor"), "max_attempts": (10000, 17, "attr")})
    R["HamiltonianDisplacementMove"] = dict(role="move", children="integrator", params={"max_attempts": (10, 3, "attr")})
    R["CompositeMove"] = dict(role="move", children="moves", params={})
    R["CompositeDisplacementMove"] = dict(role="move", children="moves", params={})
    R["CompositeExchangeMove"] = dict(role="move", children="moves", params={"bias_towards_insert": (0.5, 0.8, "attr")})
    for c in ("CanonicalCriteria", "HamiltonianCanonicalCriteria", "IsobaricCriteria", "IsotensionCriteria", "GrandCanonicalCriteria"):
        R[c] = dict(role="criteria", children="", params={})
    R["MoveStorage"] = dict(role="storage", children="storage", params={"interval": (1, 3, "ctor_req"), "probability": (1.0, 0.25, "ctor_req"), "minimum_count": (0, 1, "ctor_req")})
    drv = {"max_cycles": (2, 3, "ctor"), "seed": (5, 77, "ctor"), "step_count": (0, 5, "attr"), "logging_interval": (1, 4, "ctor"), "rng_advanced": (False, True, "special")}
    R["MonteCarlo"] = dict(role="driver", children="table", params=dict(drv))
    R["Canonical"] = dict(role="driver", children="table", params=dict(drv, temperature=(298.15, 450.0, "ctor")))
    R["HamiltonianCanonical"] = dict(role="driver", children="table", params=dict(drv, temperature=(298.15, 450.0, "ctor")))
    R["Isobaric"] = dict(role="driver", children="table", params=dict(drv, temperature=(300.0, 450.0, "ctor_req"), pressure=(0.0, 0.02, "ctor")))
    R["Isotension"] = dict(role="driver", children="table", params=dict(drv, temperature=(300.0, 450.0, "ctor_req"), pressure=(0.0, 0.02, "ctor"), external_stress=(None, stress, "ctor")))
    R["GrandCanonical"] = dict(role="driver", children="table", params=dict(drv, temperature=(298.15, 450.0, "ctor"), chemical_potential=(0.0, 0.4, "ctor"), number_of_exchange_particles=(0, 2, "ctor"),
                                                                              accessible_volume=(None, 100.0, "attr"), exchange_atoms=(None, Atoms("CO", positions=[[0, 0, 0], [0, 0, 1.1]]), "ctor")))
    return R


CRITERIA_FOR = {"DisplacementMove": "CanonicalCriteria", "ExchangeMove": "GrandCanonicalCriteria", "CellMove": "IsobaricCriteria", "HamiltonianDisplacementMove": "HamiltonianCanonicalCriteria"}
DEFORMATIONS = ("IsotropicDeformation", "AnisotropicDeformation", "ShapeDeformation")


def find_class(name):
    """the class object itself, by walking the package (NOT through the registry)"""
    import quansino

    for m in list(sys.modules.values()):
        if m is not None and getattr(m, "__name__", "").startswith("quansino") and hasattr(m, name):
            obj = getattr(m, name)
            if inspect.isclass(obj) and obj.__name__ == name:
                return obj
    raise KeyError(name)


def serializable_classes():
    import quansino

    found = {}
    for mi in pkgutil.walk_packages(quansino.__path__, "quansino."):
        if any(part.startswith("_") for part in mi.name.split(".")):
            continue
        m = importlib.import_module(mi.name)
        for n, obj in vars(m).items():
            if (inspect.isclass(obj) and obj.__module__ == m.__name__ and hasattr(obj, "to_dict") and hasattr(obj, "from_dict") and not n.startswith("_")
                    and not getattr(obj, "_is_protocol", False)):
                found[n] = obj
    return found


ABSTRACT = {"BaseMove", "BaseOperation", "BaseCriteria", "BaseIntegrator", "DisplacementOperation", "DeformationOperation"}


def catalogue(out):
    import quansino.mc  # noqa: F401

    R = recipes()
    found = serializable_classes()
    classes, uncovered = [], []
    for n in sorted(found):
        if n in ABSTRACT or inspect.isabstract(found[n]):
            continue
        if n not in R:
            uncovered.append(n)
            continue
        r = R[n]
        classes.append({"name": n, "role": r["role"], "children": r["children"], "params": sorted(r["params"])})
    json.dump({"classes": classes, "uncovered": uncovered}, open(out, "w"))


# legal but falsy / edge non-default values (variant 1): `x or default` idioms lose exactly these
ALT = {
    ("MoveStorage", "probability"): 0.0,
    ("MoveStorage", "interval"): 2,
    ("DisplacementMove", "default_label"): 0,
    ("ExchangeMove", "default_label"): -1,
    ("DisplacementMove", "labels"): [-1, -1, -1],
    ("ExchangeMove", "labels"): [0, 0, 0, 0],
    ("ExchangeMove", "bias_towards_insert"): 0.0,
    ("CompositeExchangeMove", "bias_towards_insert"): 0.0,
    ("Verlet", "max_steps"): 1,
    # a value that is ANOTHER class's default (the base moves default to 10000, the Hamiltonian move to 10)
    ("HamiltonianDisplacementMove", "max_attempts"): 10000,
    ("DisplacementMove", "max_attempts"): 10,
    ("CellMove", "max_attempts"): 10,
    # a time step ASSIGNED on the live integrator (step-size adaptation), in ASE units: not of the form x * fs
    ("Verlet", "dt"): ("assign", 0.030644085465574754),
    ("Canonical", "temperature"): 1e-3,
    ("GrandCanonical", "chemical_potential"): -0.0,
    ("GrandCanonical", "number_of_exchange_particles"): 7,
    ("Isobaric", "pressure"): -0.01,
    ("Ball", "step_size"): 1e-9,
    ("MonteCarlo", "seed"): 2**63 + 5,
    ("Canonical", "seed"): 2**32 + 1,
}
VARIANT = 0


def build(cfg, R, atoms_n=3):
    """instantiate configuration cfg = {cls, set, kids}; returns (obj, expected: {param: value})"""
    np = np_()
    from ase import Atoms

    name = cfg["cls"]
    cls = find_class(name)
    r = R[name]
    chosen = set(cfg["set"])
    kids = [build(k, R)[0] for k in cfg["kids"]]
    kw, attrs, expected = {}, {}, {}
    for p, (dflt, nd, kind) in r["params"].items():
        val = (ALT.get((name, p), nd) if VARIANT else nd) if p in chosen else dflt
        if isinstance(val, tuple) and len(val) == 2 and val[0] == "assign":
            attrs[p] = val[1]  # set on the object after construction, whatever the parameter's usual route
            continue
        if kind in ("ctor", "ctor_req"):
            if p in chosen or kind == "ctor_req":
                kw[p] = val
        elif kind == "attr" and p in chosen:
            attrs[p] = val
        if kind != "special":
            expected[p] = val
    ch = r["children"]
    if ch == "operation":
        op = kids[0] if kids else None
        if name == "CellMove" and (op is None or type(op).__name__ not in DEFORMATIONS) and op is not None and not hasattr(op, "operations"):
            pass
        obj = cls(operation=op, **kw) if name != "DisplacementMove" and name != "ExchangeMove" else cls(kw.pop("labels"), operation=op, **kw)
    elif ch == "integrator":
        obj = cls(operation=kids[0] if kids else None, **kw)
    elif ch == "operations":
        obj = cls(kids)
    elif ch == "moves":
        # specialised composites need elements of their kind
        want = {"CompositeDisplacementMove": "DisplacementMove", "CompositeExchangeMove": "ExchangeMove"}.get(name)
        if want:
            kids = [k if type(k).__name__ == want else build({"cls": want, "set": [], "kids": []}, R)[0] for k in kids]
        obj = cls(kids)
    elif ch == "storage":
        obj = cls(move=kids[0], criteria=kids[1], **kw)
    elif ch == "table":
        atoms = Atoms("Cu3", positions=np.arange(9.0).reshape(3, 3) * 0.9 + 1, cell=[7, 8, 9], pbc=True)
        obj = cls(atoms, **kw)
        for i, st in enumerate(kids):
            obj.moves[f"entry{i}"] = st
    else:
        obj = cls(**kw)
    for a, v in attrs.items():
        setattr(obj, a, v)
    if "rng_advanced" in chosen:
        obj._rng.random(13)
    return obj, expected


def getparam(obj, p):
    np = np_()
    if p == "dt":
        return obj.dt
    if p == "seed":
        return obj._seed
    if p == "rng_advanced":
        return obj._rng.bit_generator.state
    return getattr(obj, p)


def run_case(cid, cfg, R):
    from ase.io.jsonio import decode, encode

    from quansino.registry import get_class

    name = cfg["cls"]
    row = {"id": cid, "cls": name, "status": "ok", "message": "", "detail_key": ""}
    try:
        obj, expected = build(cfg, R)
    except Exception as ex:  # noqa: BLE001
        row.update(status="harness-cannot-build", message=f"{type(ex).__name__}: {ex}")
        return row
    try:
        d = obj.to_dict()
        text = encode(d)
        d2 = decode(text)
    except Exception as ex:  # noqa: BLE001
        row.update(status="to_dict-or-json-fails", message=f"{type(ex).__name__}: {ex}", detail_key=type(ex).__name__)
        return row
    try:
        cls2 = get_class(d2["name"])
    except Exception as ex:  # noqa: BLE001
        row.update(status="not-registered", message=f"registry lookup of '{d2.get('name')}' fails: {type(ex).__name__}", detail_key=str(d2.get("name")))
        return row
    if cls2 is not type(obj):
        row.update(status="registered-name-is-another-class", message=f"'{d2['name']}' is registered as {cls2.__name__}", detail_key=cls2.__name__)
        return row
    snapshot = encode(d2) if R[name]["role"] == "driver" else None
    try:
        obj2 = cls2.from_dict(d2)
    except Exception as ex:  # noqa: BLE001
        nested = ",".join(sorted({k["cls"] for k in cfg["kids"]})) if cfg["kids"] else ""
        why = str(ex)
        key = type(ex).__name__ + (":nested-not-registered" if "not registered" in why else (":wrong-protocol" if "is not a" in why else (":unexpected-kwarg" if "unexpected keyword" in why else (":missing-arg" if "missing" in why else ""))))
        row.update(status="from_dict-fails", message=f"from_dict raised {type(ex).__name__}: {why[:160]} (nested: {nested})", detail_key=key)
        return row
    if type(obj2) is not type(obj):
        row.update(status="type-changed", message=f"rebuilt object is a {type(obj2).__name__}")
        return row
    if snapshot is not None:
        # the dictionary is a snapshot: what the rebuilt simulation does to ITS atoms must not reach into it (the same
        # dictionary may be used again, for a second replica or to be written to disk)
        obj3 = cls2.from_dict(d2)
        obj3.atoms.positions = obj3.atoms.positions + 0.123
        obj3.atoms.set_cell(obj3.atoms.cell.array * 1.01, scale_atoms=False)
        if encode(d2) != snapshot:
            row.update(status="dictionary-aliased-by-rebuilt-object", message="moving the atoms of a simulation rebuilt from a dictionary changed the dictionary itself (from_dict shares the caller's objects)")
            return row
    lost = []
    for p in sorted(R[name]["params"]):
        try:
            a, b = getparam(obj, p), getparam(obj2, p)
        except Exception as ex:  # noqa: BLE001
            lost.append(f"{p}(unreadable: {ex})")
            continue
        if not equal(a, b):
            lost.append(p)
    # nested components: same classes in the same order
    def kid_classes(o):
        for attr in ("operations", "moves"):
            if hasattr(o, attr) and not hasattr(o, "labels"):
                return [type(x).__name__ for x in getattr(o, attr)]
        if hasattr(o, "operation"):
            return [type(o.operation).__name__]
        return []

    if kid_classes(obj) != kid_classes(obj2):
        lost.append("nested-components")
    if hasattr(obj, "moves") and isinstance(getattr(obj, "moves"), dict):
        if list(obj.moves) != list(obj2.moves):
            lost.append("move-table-names")
    if lost:
        chosen = set(cfg["set"])
        really = [p for p in lost if p.split("(")[0] in chosen or p in ("nested-components", "move-table-names")]
        if really:
            row.update(status="parameter-not-preserved", message=f"after the round trip these differ: {really} (set non-default: {sorted(chosen)})", detail_key=",".join(really))
            return row
    try:
        d3 = obj2.to_dict()
    except Exception as ex:  # noqa: BLE001
        row.update(status="second-to_dict-fails", message=str(ex))
        return row
    if not equal(d, d3):
        diff = [k for k in set(d) | set(d3) if not equal(d.get(k), d3.get(k))]
        row.update(status="second-dict-differs", message=f"serializing the rebuilt object gives a different dictionary (keys {sorted(map(str, diff))})", detail_key=",".join(sorted(map(str, diff))))
    return row


OWNER = {"operation": "quansino.operations", "integrator": "quansino.integrators", "move": "quansino.moves", "criteria": "quansino.mc", "storage": "quansino.mc", "driver": "quansino.mc"}


def write_docs(cases_file, out):
    """serialize every configuration (all modules imported) -> [{id, cls, role, text}]"""
    from ase.io.jsonio import encode

    import quansino

    for mi in pkgutil.walk_packages(quansino.__path__, "quansino."):
        if not any(part.startswith("_") for part in mi.name.split(".")):
            importlib.import_module(mi.name)
    R = recipes()
    docs = []
    for cid, cfg in enumerate(json.load(open(cases_file))):
        if cfg is None:
            continue
        try:
            obj, _ = build(cfg, R)
            docs.append({"id": cid, "cls": cfg["cls"], "role": R[cfg["cls"]]["role"], "text": encode(obj.to_dict())})
        except Exception:  # noqa: BLE001  (judged by the main pass)
            continue
    json.dump(docs, open(out, "w"))


def read_docs(first, owner, docs_file):
    """a READER that never built the objects: import `first`, then only the sub-package that owns the top-level class
    (a script that rebuilds a move imports quansino.moves); everything nested must be found through the registry"""
    from ase.io.jsonio import decode, encode

    importlib.import_module(first)
    importlib.import_module(owner)
    from quansino.registry import get_class

    for doc in json.load(open(docs_file)):
        if OWNER[doc["role"]] != owner:
            continue
        row = {"id": doc["id"], "cls": doc["cls"], "status": "ok", "message": "", "detail_key": "", "variant": 0}
        try:
            d = decode(doc["text"])
            obj = get_class(d["name"]).from_dict(d)
            d2 = decode(encode(obj.to_dict()))
            if not equal(d, d2):
                row.update(status="reader:second-dict-differs", message="a reader that only imported " + owner + " rebuilds an object whose dictionary differs")
        except Exception as ex:  # noqa: BLE001
            why = str(ex)
            key = type(ex).__name__ + (":not-registered" if "not registered" in why else "")
            row.update(status="reader:rebuild-fails", message=f"a fresh interpreter that imported {first} and {owner} cannot rebuild it by registered name: {type(ex).__name__}: {why[:140]}", detail_key=key)
        print("@@" + json.dumps(row))
    return 0


def main():
    if sys.argv[1] == "--catalogue":
        catalogue(sys.argv[2])
        return 0
    if sys.argv[1] == "--write":
        write_docs(sys.argv[2], sys.argv[3])
        return 0
    if sys.argv[1] == "--read":
        return read_docs(sys.argv[2], sys.argv[3], sys.argv[4])
    first, cases_file = sys.argv[1], sys.argv[2]
    importlib.import_module(first)
    for sub in ("quansino.mc", "quansino.moves", "quansino.operations", "quansino.integrators", "quansino.io", "quansino.utils"):
        importlib.import_module(sub)
    import quansino

    for mi in pkgutil.walk_packages(quansino.__path__, "quansino."):  # every module, so that every class object can be found
        if not any(part.startswith("_") for part in mi.name.split(".")):
            importlib.import_module(mi.name)
    R = recipes()
    cases = json.load(open(cases_file))
    bad = 0
    global VARIANT
    for cid, cfg in enumerate(cases):
        if cfg is None:
            continue
        for VARIANT in (0, 1):
            if VARIANT and not cfg["set"]:
                continue
            row = run_case(cid, cfg, R)
            row["variant"] = VARIANT
            bad += row["status"] != "ok"
            print("@@" + json.dumps(row))
    return 1 if bad else 0


if __name__ == "__main__":
    sys.exit(main())
