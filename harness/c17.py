"""C17 -- + and * on moves and operations (spec/Algebra.tla).

TLC checks Dispatch(t) = Meaning(t) on every expression tree up to the size
bound and exports <tree, Meaning(tree)> as ndjson; every exported tree is
rebuilt here from real objects with the real operators and compared with
TLC's expected value (exhaustive replay)."""

from __future__ import annotations

import itertools
import json
import os
import tempfile

from common import Report
from tlc import run_tlc


def leaf_factories():
    import numpy as np

    from quansino.moves.cell import CellMove
    from quansino.moves.core import BaseMove
    from quansino.moves.displacement import DisplacementMove, HamiltonianDisplacementMove
    from quansino.moves.exchange import ExchangeMove
    from quansino.operations.core import BaseOperation
    from quansino.operations.displacement import Ball, Box, Rotation

    class UserMove(BaseMove):
        def __init__(self):
            super().__init__(Ball(0.1))

        def __call__(self, context):
            return True

    class UserOp(BaseOperation):
        def calculate(self, context):
            return np.zeros((1, 3))

    ops = [lambda: Ball(0.1), lambda: Box(0.2), lambda: Rotation(), lambda: UserOp()]
    counter = itertools.count()
    return {
        "disp": lambda: DisplacementMove([0, 1]),
        "exch": lambda: ExchangeMove([0, 1]),
        "cell": lambda: CellMove(),
        "ham": lambda: HamiltonianDisplacementMove(),
        "generic": lambda: UserMove(),
        "op": lambda: ops[next(counter) % len(ops)](),
    }


def build(tree, fac, leaves):
    if tree["t"] == "leaf":
        obj = fac[tree["k"]]()
        leaves.append(obj)
        return obj
    if tree["t"] == "add":
        left = build(tree["l"], fac, leaves)
        right = build(tree["r"], fac, leaves)
        before = (_elems(left), _elems(right))
        res = left + right
        if (_elems(left), _elems(right)) != before:
            raise OperandMutated(f"evaluating ({show(tree['l'])}) + ({show(tree['r'])}) changed the elements of one of its operands")
        return res
    sub = build(tree["a"], fac, leaves)
    before = _elems(sub)
    res = sub * tree["n"]
    if _elems(sub) != before:
        raise OperandMutated(f"evaluating ({show(tree['a'])}) * {tree['n']} changed the elements of its operand")
    return res


class OperandMutated(Exception):
    """a + b / a * n build a NEW composite: an operand that is used again elsewhere must still be what it was"""


def _elems(x):
    for attr in ("moves", "operations"):
        if hasattr(x, attr):
            return [id(e) for e in getattr(x, attr)]
    return None


def show(tree):
    if tree["t"] == "leaf":
        return tree["k"]
    if tree["t"] == "add":
        return f"({show(tree['l'])} + {show(tree['r'])})"
    return f"({show(tree['a'])} * {tree['n']})"


def shape(tree):
    """coarse shape used in violation signatures"""
    if tree["t"] == "leaf":
        return "leaf"
    if tree["t"] == "add":
        return f"add[{tree['l']['t']},{tree['r']['t']}]"
    return f"mul[{tree['a']['t']}]"


def run(tier: str) -> int:
    rep = Report("C17", tier, "model_checking")
    from quansino.moves.composite import CompositeMove
    from quansino.moves.displacement import CompositeDisplacementMove
    from quansino.moves.exchange import CompositeExchangeMove
    from quansino.operations.composite import CompositeOperation

    type_of = {"plain": CompositeMove, "cdisp": CompositeDisplacementMove, "cexch": CompositeExchangeMove, "cop": CompositeOperation}
    fac = leaf_factories()
    # moves: trees of at most 4 elementary moves are enumerated exhaustively in both tiers (size 5 did not finish in 25 min:
    # the tree space grows by ~40x per leaf); size 7 of the one-kind operation trees neither); the thorough tier widens the multiplication factor instead
    max_size = 4
    states = trans = 0
    replayed = 0
    tmp = tempfile.mkdtemp(prefix="c17_")
    try:
        for domain, base_cfg in (("moves", "MC_Algebra_moves.cfg"), ("operations", "MC_Algebra_ops.cfg")):
            # operations have a single kind: the tree space is tiny, go one size deeper
            size = max_size if domain == "moves" else max_size + 2
            cfg = os.path.join(tmp, f"alg_{domain}.cfg")
            txt = open(os.path.join(os.path.dirname(__file__), "..", "spec", base_cfg)).read()
            txt = txt.replace("MaxSize = 4", f"MaxSize = {size}")
            if tier != "quick":
                txt = txt.replace("MaxMul = 3", "MaxMul = 4")
            open(cfg, "w").write(txt)
            out = os.path.join(tmp, f"{domain}.ndjson")
            r = run_tlc("Algebra", cfg, workers=8, env={"ALG_OUT": out}, timeout=900)
            if not r.ok:
                if r.invariant_violated:
                    rep.violation(f"model:{r.invariant_violated[0]}:{domain}", f"TLC: invariant {r.invariant_violated[0]} violated in Algebra.tla ({domain}): the transcribed dispatch differs from the meaning", {"tlc_tail": r.out[-3000:]})
                else:
                    rep.error(f"TLC failed on Algebra ({domain}): rc={r.rc} {r.out[-1500:]}")
                continue
            states += r.distinct
            trans += r.generated
            for line in open(out):
                case = json.loads(line)
                tree, meaning = case["tree"], case["meaning"]
                replayed += 1
                leaves = []
                key = show(tree)
                rep.count(key, nontrivial=tree["t"] != "leaf")
                if replayed % 1500 == 1:
                    rep.sample({"tree": key, "expected_type": meaning["type"], "expected_elems": [e[0] for e in meaning["elems"]]})
                try:
                    res = build(tree, fac, leaves)
                except OperandMutated as ex:
                    rep.violation(f"operand-mutated:{domain}:{shape(tree)}", f"{ex} (in {key})", {"tree": tree, "expr": key})
                    continue
                except Exception as ex:  # noqa: BLE001
                    rep.violation(f"raise:{domain}:{shape(tree)}:{type(ex).__name__}", f"building {key} raised {type(ex).__name__}: {ex}", {"tree": tree, "expr": key})
                    continue
                if not meaning["comp"]:
                    if res is not leaves[0]:
                        rep.violation(f"leaf-identity:{domain}", f"{key} is not the elementary object itself", {"tree": tree})
                    continue
                want_t = type_of[meaning["type"]]
                elems = res.operations if domain == "operations" else res.moves
                got_ids = [id(m) for m in elems]
                want_ids = [id(leaves[p - 1]) for p, _ in meaning["elems"]]
                if type(res) is not want_t:
                    rep.violation(
                        f"type:{domain}:{shape(tree)}:want={meaning['type']}:got={type(res).__name__}",
                        f"type({key}) is {type(res).__name__}, expected {want_t.__name__} (all elements of kind {sorted({k for _, k in meaning['elems']})})",
                        {"tree": tree, "expr": key, "expected": meaning},
                    )
                if got_ids != want_ids:
                    pos = {id(l): i + 1 for i, l in enumerate(leaves)}
                    rep.violation(
                        f"elems:{domain}:{shape(tree)}",
                        f"{key} contains leaf positions {[pos.get(i, '?') for i in got_ids]}, expected {[p for p, _ in meaning['elems']]}",
                        {"tree": tree, "expr": key, "expected": meaning},
                    )
    finally:
        import shutil

        shutil.rmtree(tmp, ignore_errors=True)

    # --- n must be a positive integer ---------------------------------
    bad = {"zero": 0, "negative": -2, "float": 2.5, "string": "2", "none": None, "float_integral": 2.0}
    good = {"one": 1, "two": 2}
    subjects = {k: fac[k] for k in fac}
    subjects["composite_plain"] = lambda: fac["generic"]() + fac["cell"]()
    subjects["composite_disp"] = lambda: fac["disp"]() * 2
    subjects["composite_op"] = lambda: fac["op"]() + fac["op"]()
    for sname, mk in subjects.items():
        for aname, n in bad.items():
            rep.count(f"refuse:{sname}:{aname}")
            try:
                mk() * n
            except Exception:  # noqa: BLE001
                continue
            rep.violation(f"mul-not-refused:{sname}:{aname}", f"{sname} * {n!r} was not refused", {"subject": sname, "n": repr(n)})
        # the reflected spelling n * x (where Python reaches the library at all: numbers; a str or None on the left raises by itself)
        for aname, n in bad.items():
            if isinstance(n, (str, type(None))):
                continue
            rep.count(f"refuse-reflected:{sname}:{aname}")
            try:
                n * mk()
            except Exception:  # noqa: BLE001
                continue
            rep.violation(f"rmul-not-refused:{sname}:{aname}", f"{n!r} * {sname} was not refused", {"subject": sname, "n": repr(n)})
        for aname, n in good.items():
            try:
                r = n * mk()
                elems = getattr(r, "moves", None) or getattr(r, "operations", None)
                base = 2 if sname.startswith("composite") else 1
                left = mk() * n
                if len(elems) != base * n or type(r) is not type(left):
                    rep.violation(f"rmul-differs:{sname}", f"{n} * {sname} is a {type(r).__name__} of {len(elems)} elements, {sname} * {n} a {type(left).__name__}", {"subject": sname, "n": n})
            except TypeError:
                pass   # the reflected spelling is not offered for this subject (Python's "unsupported operand"): nothing is claimed
            except Exception as ex:  # noqa: BLE001
                rep.violation(f"rmul-refused:{sname}:{aname}", f"{n} * {sname} raised {ex!r}", {"subject": sname, "n": n})
        for aname, n in good.items():
            rep.count(f"accept:{sname}:{aname}")
            try:
                r = mk() * n
                elems = getattr(r, "moves", None) or getattr(r, "operations", None)
                base = 2 if sname.startswith("composite") else 1
                if len(elems) != base * n:
                    rep.violation(f"mul-length:{sname}", f"{sname} * {n} has {len(elems)} elements", {"subject": sname, "n": n})
            except Exception as ex:  # noqa: BLE001
                rep.violation(f"mul-refused:{sname}:{aname}", f"{sname} * {n} raised {ex!r}", {"subject": sname, "n": n})

    # --- calling a plain composite: each element once, in order, any() --
    from quansino.moves.core import BaseMove
    from quansino.operations.displacement import Ball

    log = []

    class Probe(BaseMove):
        def __init__(self, name, value):
            super().__init__(Ball(0.1))
            self._nv = (name, value)

        def __call__(self, context):
            log.append(self._nv[0])
            return self._nv[1]

    ncall = 0
    for n in range(1, 5 if tier == "quick" else 7):
        for truth in itertools.product([False, True, 0, 1, [], "x"] if n <= 2 else [False, True], repeat=n):
            for assoc in ("left", "right", "mul"):
                log.clear()
                probes = [Probe(i, v) for i, v in enumerate(truth)]
                if assoc == "mul":
                    if n > 3:
                        continue
                    comp = probes[0] * n
                    want_order = [0] * n
                    want = bool(truth[0])
                else:
                    if n == 1:
                        comp = probes[0] * 1
                    elif assoc == "left":
                        comp = probes[0]
                        for p in probes[1:]:
                            comp = comp + p
                    else:
                        comp = probes[-1]
                        for p in reversed(probes[:-1]):
                            comp = p + comp
                    want_order = list(range(n))
                    want = any(bool(v) for v in truth)
                ncall += 1
                rep.count(f"call:{n}:{truth!r}:{assoc}")
                got = comp(None)
                if log != want_order:
                    rep.violation(f"call-order:{assoc}", f"plain composite of {n} probes called {log}, expected {want_order} (results {truth})", {"truth": repr(truth), "assoc": assoc})
                if bool(got) != want:
                    rep.violation(f"call-result:{assoc}", f"plain composite with element results {truth} returned {got!r}", {"truth": repr(truth), "assoc": assoc})

    rep.add(states=states, transitions=trans, traces_validated_against_impl=replayed + ncall, exhaustive=True,
            rule=f"every expression tree over +,* with leaves+mul-nodes <= {max_size} (moves: 5 kinds; operations: size <= {max_size + 2}), multipliers 1..3, enumerated by TLC (Algebra.tla) and rebuilt from real objects; non-trivial = not a bare leaf; plus refusal of 6 non-positive-integer multipliers on 9 subjects and every truth assignment of plain composites up to {4 if tier == 'quick' else 6} probes",
            composite_calls=ncall)
    rep.assumptions += ["kinds are represented by DisplacementMove, ExchangeMove, CellMove, HamiltonianDisplacementMove and a user subclass of BaseMove; operations by Ball, Box, Rotation and a user subclass of BaseOperation",
                        "the same Python object appearing at two leaf positions (a + a) is covered only through * (multiplicity)"]
    return rep.finish()
