"""Shared plumbing for every property check.

* paths, seed handling
* evidence files (schema /root/.vp/EVIDENCE.schema.json)
* violation reporting with replay files
* known-findings file (read-only at run time)
"""

from __future__ import annotations

import hashlib
import json
import os
import sys
import time
from pathlib import Path

VERIF = Path(__file__).resolve().parent.parent
SPEC = VERIF / "spec"
# a self-test against a deliberately broken scratch tree (selftest/try_patch.sh) must not overwrite the evidence of
# the real tree: it redirects evidence and replays to a scratch directory
_SCRATCH = os.environ.get("VERIF_SCRATCH_OUT")
EVIDENCE = (Path(_SCRATCH) / "evidence") if _SCRATCH else VERIF / "evidence"
REPLAYS = (Path(_SCRATCH) / "replays") if _SCRATCH else VERIF / "replays"
REPO = Path(os.environ.get("QUANSINO_REPO", "/repo"))
PY = "/venv/bin/python"

DEFAULT_SEED = 20260926


def get_seed() -> int:
    try:
        s = int(os.environ.get("VERIF_SEED", "0"))
    except ValueError:
        s = 0
    return s if s else DEFAULT_SEED


def jsonable(x):
    """Best-effort conversion of numpy things to plain JSON."""
    import numpy as np

    if isinstance(x, dict):
        return {str(k): jsonable(v) for k, v in x.items()}
    if isinstance(x, (list, tuple, set, frozenset)):
        return [jsonable(v) for v in x]
    if isinstance(x, np.ndarray):
        return jsonable(x.tolist())
    if isinstance(x, (np.integer,)):
        return int(x)
    if isinstance(x, (np.floating,)):
        return float(x)
    if isinstance(x, (np.bool_,)):
        return bool(x)
    if isinstance(x, (str, int, float, bool)) or x is None:
        return x
    return repr(x)


class Findings:
    """known_findings.json: list of entries
    {"status": "known"|"fixed", "property": id, "signature": str, "what": str, ["commit": sha]}
    A *signature* is a short stable string computed by the check for a class of
    violation (property + call site / input class), never a wildcard for the
    whole property.  Only status == "known" suppresses.
    """

    def __init__(self):
        p = VERIF / "known_findings.json"
        self.entries = json.loads(p.read_text())["findings"] if p.exists() else []

    def known(self, prop: str, signature: str):
        for e in self.entries:
            if e["status"] == "known" and e["property"] == prop and e["signature"] == signature:
                return e
        return None


class Report:
    """Collects what a check did; writes evidence; prints verdict lines."""

    def __init__(self, prop: str, tier: str, level: str):
        self.prop = prop
        self.tier = tier
        self.level = level
        self.seed = get_seed()
        self.t0 = time.time()
        self.coverage: dict = {}
        self.assumptions: list[str] = []
        self.violations: list[dict] = []
        self.known_hits: dict[str, dict] = {}
        self.findings = Findings()
        self.machinery_errors: list[str] = []
        self.samples: list = []
        self._distinct: set = set()
        self.evaluations = 0

    # -- counting -----------------------------------------------------
    def count(self, key, nontrivial: bool = True):
        """One evaluated case; `key` identifies it for distinctness."""
        self.evaluations += 1
        if nontrivial:
            self._distinct.add(key if isinstance(key, (str, int, tuple)) else json.dumps(jsonable(key), sort_keys=True))

    def sample(self, s, cap: int = 6):
        if len(self.samples) < cap:
            self.samples.append(jsonable(s))

    def add(self, **kw):
        for k, v in kw.items():
            if isinstance(v, (int, float)) and isinstance(self.coverage.get(k), (int, float)) and not isinstance(v, bool):
                self.coverage[k] += v
            else:
                self.coverage[k] = v

    # -- verdicts -----------------------------------------------------
    def violation(self, signature: str, what: str, replay: dict):
        """Report a divergence.  Suppressed (KNOWN-FINDING) only when the
        signature is listed as known."""
        e = self.findings.known(self.prop, signature)
        if e is not None:
            if signature not in self.known_hits:
                self.known_hits[signature] = {"what": e["what"], "n": 0}
            self.known_hits[signature]["n"] += 1
            return False
        if any(v["signature"] == signature for v in self.violations):
            for v in self.violations:
                if v["signature"] == signature:
                    v["n"] += 1
            return True
        d = REPLAYS / self.prop
        d.mkdir(parents=True, exist_ok=True)
        h = hashlib.sha1((signature + what).encode()).hexdigest()[:12]
        path = d / f"{h}.json"
        path.write_text(json.dumps(jsonable({"property": self.prop, "signature": signature, "what": what, "seed": self.seed, "tier": self.tier, "replay": replay}), indent=1))
        self.violations.append({"signature": signature, "what": what, "path": str(path), "n": 1})
        return True

    def error(self, msg: str):
        self.machinery_errors.append(msg)

    def finish(self) -> int:
        cov = dict(self.coverage)
        cov.setdefault("evaluations", self.evaluations)
        cov.setdefault("distinct_nontrivial", len(self._distinct))
        cov.setdefault("samples", self.samples)
        cov["known_findings_observed"] = {k: v["n"] for k, v in self.known_hits.items()}
        cov["violation_signatures"] = [v["signature"] for v in self.violations]
        if self.machinery_errors:
            cov["machinery_errors"] = self.machinery_errors
        ev = {
            "property_id": self.prop,
            "tier": self.tier,
            "seed": self.seed,
            "level": self.level,
            "coverage": jsonable(cov),
            "assumptions": self.assumptions,
            "wall_s": round(time.time() - self.t0, 2),
            "violations": len(self.violations),
        }
        EVIDENCE.mkdir(parents=True, exist_ok=True)
        (EVIDENCE / f"{self.prop}.json").write_text(json.dumps(ev, indent=1) + "\n")
        for sig, v in self.known_hits.items():
            print(f"KNOWN-FINDING: property={self.prop} {v['what']} [signature={sig}; seen {v['n']}x]")
        for v in self.violations:
            print(f"VIOLATION property={self.prop} replay={v['path']}")
            print(f"  signature={v['signature']} ({v['n']}x): {v['what']}")
        if self.machinery_errors:
            for m in self.machinery_errors:
                print(f"MACHINERY-ERROR property={self.prop}: {m}", file=sys.stderr)
        if self.violations:
            return 1
        if self.machinery_errors:
            return 2
        print(f"OK property={self.prop} tier={self.tier} evaluations={cov['evaluations']} distinct={cov['distinct_nontrivial']} wall={ev['wall_s']}s")
        return 0


class Hang(BaseException):
    """raised by `watchdog` in the main thread (BaseException: not swallowed by `except Exception` in the code under test)"""


class watchdog:
    """with watchdog(seconds): ...   -- a call into quansino that does not return within the budget raises Hang"""

    def __init__(self, seconds):
        self.seconds = seconds

    def __enter__(self):
        import signal

        def handler(signum, frame):
            raise Hang(f"no return within {self.seconds} s")

        self._old = signal.signal(signal.SIGALRM, handler)
        signal.setitimer(signal.ITIMER_REAL, self.seconds)
        return self

    def __exit__(self, *exc):
        import signal

        signal.setitimer(signal.ITIMER_REAL, 0)
        signal.signal(signal.SIGALRM, self._old)
        return False
