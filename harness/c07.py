"""C07 -- restarting from any saved step continues the same trajectory (spec/Restart.tla).

TLC enumerates <ensemble, move-table shape, n>; for each tuple the real simulation is run n
steps with the default restart observer writing (interval 1) into a file object whose bytes
are captured after every call; for EVERY k in 0..n the bytes of step k are loaded with
read_json, the simulation is rebuilt with <Driver>.from_dict (the documented way), a fresh
calculator is attached and the remaining n-k steps are run; every step is compared with the
uninterrupted run (atoms, cell, energies, move history, labels, counters, generator state)."""

from __future__ import annotations

import io
import json
import os
import shutil
import tempfile
import warnings

import numpy as np
from ase import Atoms

from calcs import Harmonic, PairRebuild
from common import Report
from tlc import run_tlc


class CaptureFile(io.StringIO):
    """seekable text file that keeps a copy of its content at every flush"""

    def __init__(self):
        super().__init__()
        self.snapshots = []

    def flush(self):
        super().flush()
        self.snapshots.append(self.getvalue())


def fresh_calc(kind):
    return Harmonic(k=0.2, centers=np.array([[2.0, 2.0, 2.0], [4.0, 2.5, 2.0], [2.5, 4.0, 3.0], [4.0, 4.0, 4.5]]), eps=0.03, cellk=0.0004) if kind == "harm" else PairRebuild(a=0.4, rc=3.5)


def base_atoms(n=4, molecular=False):
    rs = np.random.RandomState(11)
    if molecular:
        pos = []
        for i in range(n // 2):
            p = rs.rand(3) * 4 + 2
            pos += [p, p + [0, 0, 1.13]]
        a = Atoms("CO" * (n // 2), positions=pos, cell=[8, 8.5, 9], pbc=True)
    else:
        a = Atoms(f"Cu{n}", positions=rs.rand(n, 3) * 4 + 2, cell=[8, 8.5, 9], pbc=True)
    a.set_momenta(rs.randn(len(a), 3) * 0.5)
    return a


def build(ens, table, seed, calc_kind, restart_file, extra_kw=None):
    from quansino.integrators.displacement import Verlet
    from quansino.mc.canonical import Canonical, HamiltonianCanonical
    from quansino.mc.criteria import CanonicalCriteria, GrandCanonicalCriteria
    from quansino.mc.gcmc import GrandCanonical
    from quansino.mc.isobaric import Isobaric
    from quansino.mc.isotension import Isotension
    from quansino.moves.cell import CellMove
    from quansino.moves.displacement import DisplacementMove, HamiltonianDisplacementMove
    from quansino.moves.exchange import ExchangeMove
    from quansino.operations.cell import AnisotropicDeformation, IsotropicDeformation, ShapeDeformation
    from quansino.operations.displacement import Ball, Box, Rotation, Sphere, Translation, TranslationRotation

    kw = dict(seed=seed, restart_file=restart_file, logging_interval=1)
    kw.update(extra_kw or {})
    mask = np.array([[True, False, False], [False, True, False], [False, False, True]])
    if ens == "Canonical":
        molecular = table == "disp_rotation_molecule"
        atoms = base_atoms(4, molecular)
        atoms.calc = fresh_calc(calc_kind)
        mc = Canonical(atoms, temperature=900.0, max_cycles=3, **kw)
        if table == "disp_ball":
            mc.add_move(DisplacementMove(np.arange(4), Ball(0.3)))
        elif table == "disp_box_masked_labels":
            mc.add_move(DisplacementMove([3, -1, 0, 3], Box(0.25)))
        elif table == "disp_sphere_x2":
            mc.add_move(DisplacementMove(np.arange(4), Sphere(0.2)) * 2, criteria=CanonicalCriteria())
        elif table == "disp_plus_disp":
            mc.add_move(DisplacementMove(np.arange(4), Ball(0.3)) + DisplacementMove([0, 0, 1, 1], Box(0.1)), criteria=CanonicalCriteria())
        elif table == "disp_compop":
            mc.add_move(DisplacementMove(np.arange(4), Ball(0.2) + Box(0.1) * 2))
        elif table == "disp_rotation_molecule":
            mc.add_move(DisplacementMove([0, 0, 1, 1], TranslationRotation()), name="tr")
            mc.add_move(DisplacementMove([0, 0, 1, 1], Rotation()), name="rot", probability=0.5)
        else:
            mc.add_move(DisplacementMove(np.arange(4), Ball(0.3)), name="often", probability=0.7, minimum_count=1)
            mc.add_move(DisplacementMove(np.arange(4), Box(0.4)), name="sometimes", interval=2, probability=0.3)
    elif ens == "HamiltonianCanonical":
        atoms = base_atoms(4)
        atoms.calc = fresh_calc(calc_kind)
        mc = HamiltonianCanonical(atoms, temperature=900.0, max_cycles=2, **kw)
        mc.add_move(HamiltonianDisplacementMove(operation=Verlet(dt=2.0, max_steps=3)), name="ham")
        if table == "ham_plus_disp_entry":
            mc.add_move(DisplacementMove(np.arange(4), Ball(0.3)), criteria=CanonicalCriteria(), name="disp")
    elif ens in ("Isobaric", "Isotension"):
        atoms = base_atoms(4)
        atoms.calc = fresh_calc(calc_kind)
        extra = {}
        if ens == "Isotension":
            extra["external_stress"] = np.array([[0.004, 0.001, 0.0], [0.001, -0.003, 0.0005], [0.0, 0.0005, 0.002]])
        mc = (Isobaric if ens == "Isobaric" else Isotension)(atoms, temperature=2000.0, pressure=0.003, max_cycles=2, **extra, **kw)
        if table == "cell_iso":
            mc.add_move(CellMove(IsotropicDeformation(0.04)))
        elif table in ("cell_aniso_masked", "cell_shape_masked"):
            op = AnisotropicDeformation(0.03, mask=mask) if table == "cell_aniso_masked" else ShapeDeformation(0.03, mask=mask)
            mc.add_move(CellMove(op))
        elif table == "cell_shape_noscale":
            mc.add_move(CellMove(ShapeDeformation(0.03), scale_atoms=False))
        elif table == "cell_aniso_stress":
            mc.add_move(CellMove(AnisotropicDeformation(0.03)))
        else:
            mc.add_move(CellMove(IsotropicDeformation(0.04)), name="cell")
            mc.add_move(DisplacementMove(np.arange(4), Ball(0.3)), name="disp")
    else:
        molecular = table == "exch_molecular"
        atoms = base_atoms(4, molecular)
        atoms.calc = fresh_calc("pair" if molecular else calc_kind)
        tmpl = Atoms("CO", positions=[[0, 0, 0], [0, 0, 1.13]]) if molecular else Atoms("Cu", positions=[[0, 0, 0]])
        tmpl.set_momenta(np.zeros((len(tmpl), 3)))
        lab = np.array([0, 0, 1, 1]) if molecular else np.arange(4)
        mc = GrandCanonical(atoms, exchange_atoms=tmpl, temperature=2500.0, chemical_potential=-3.1, number_of_exchange_particles=len(set(lab)), max_cycles=3, **kw)
        op = TranslationRotation() if molecular else Translation()
        if table in ("exch_atomic", "exch_molecular"):
            mc.add_move(ExchangeMove(lab.copy(), op))
        elif table == "exch_x2":
            mc.add_move(ExchangeMove(lab.copy(), op) * 2, criteria=GrandCanonicalCriteria())
        elif table == "exch_plus_exch_bias":
            comp = ExchangeMove(lab.copy(), op) + ExchangeMove(lab.copy(), op)
            comp.bias_towards_insert = 0.8
            mc.add_move(comp, criteria=GrandCanonicalCriteria())
        elif table == "exch_and_disp":
            mc.accessible_volume = 0.3 * atoms.cell.volume  # the user declares a pore: the acceptance ratios depend on it
            mc.max_cycles = 5
            mc.add_move(ExchangeMove(lab.copy(), op, bias_towards_insert=0.4), name="exch")
            mc.add_move(DisplacementMove(lab.copy(), Ball(0.3)), name="disp")
        elif table == "exch_and_coarse_disp":
            # the displacement move groups the atoms more coarsely than the exchange move: an accepted
            # deletion removes PART of a displacement group
            mc.max_cycles = 6
            mc.add_move(ExchangeMove(np.arange(4), op, bias_towards_insert=0.3), name="exch")
            mc.add_move(DisplacementMove(np.array([0, 0, 1, 1]), Ball(0.3)), name="disp", probability=0.6)
        elif table == "exch_default_label":
            e = ExchangeMove(lab.copy(), op)
            d = DisplacementMove(lab.copy(), Ball(0.3))
            d.default_label = -1
            mc.add_move(e, name="exch")
            mc.add_move(d, name="disp")
        elif table == "exch_default_label_zero":
            # inserted particles join group 0 (a falsy but perfectly good label)
            e = ExchangeMove(lab.copy(), op, bias_towards_insert=0.7)
            d = DisplacementMove(lab.copy(), Ball(0.3))
            e.default_label = 0
            d.default_label = 0
            mc.max_cycles = 5
            mc.add_move(e, name="exch")
            mc.add_move(d, name="disp")
        elif table == "exch_then_disp_one_trial":
            # one trial = an exchange (deletions favoured) followed by a displacement of a particle chosen from the same labels:
            # now and then the displacement draws the particle that has just been deleted and gives up -- nothing of that
            # (a pre-selected target) may survive into the future of the run without being in the restart file
            e = ExchangeMove(lab.copy(), op, bias_towards_insert=0.35)
            d = DisplacementMove(lab.copy(), Ball(0.3))
            mc.max_cycles = 6
            mc.add_move(e + d, criteria=GrandCanonicalCriteria(), name="exch_disp")
            mc.add_move(ExchangeMove(lab.copy(), op, bias_towards_insert=0.8), name="refill", probability=0.4)
        elif table == "shared_exch_in_composite":
            # the same ExchangeMove object stand-alone and as a member of a composite exchange move
            single = ExchangeMove(lab.copy(), op)
            other = ExchangeMove(lab.copy(), op)
            mc.max_cycles = 6
            mc.add_move(single, name="exchange_one")
            mc.add_move(single + other, criteria=GrandCanonicalCriteria(), name="exchange_two")
        else:
            e = ExchangeMove(lab.copy(), op)
            mc.add_move(e, name="exch")
            mc.add_move(e, name="exch_again", probability=0.5)
    return mc


def digest(mc):
    from project import elementary_moves

    a = mc.atoms
    labels = []
    for st in mc.moves.values():
        for m in elementary_moves(st.move):
            if hasattr(m, "labels"):
                labels.append(np.asarray(m.labels).tolist())
    ctx = mc.context
    return {
        "n": len(a), "numbers": a.numbers.tobytes().hex(), "pos": a.positions.tobytes().hex(), "cell": np.asarray(a.cell.array).tobytes().hex(),
        "mom": a.get_momenta().tobytes().hex() if type(mc).__name__ == "HamiltonianCanonical" else "",
        "lastE": float(getattr(ctx, "last_potential_energy", 0.0)), "hist": [(str(n), None if v is None else bool(v)) for n, v in mc.move_history],
        "labels": labels, "nexch": int(getattr(ctx, "number_of_exchange_particles", 0)), "step": int(mc.step_count), "rng": repr(mc._rng.bit_generator.state["state"]),
        # the scalar settings Restart.tla lists as future-relevant (a lost setting may take many steps to show in the atoms)
        "settings": {k: (np.asarray(getattr(mc, k)).tolist() if getattr(mc, k, None) is not None else None)
                     for k in ("temperature", "pressure", "chemical_potential", "accessible_volume", "external_stress", "max_cycles") if hasattr(mc, k)},
    }


def run_steps(mc, n):
    out = []
    for st in mc.irun(n):
        for _ in st:
            pass
        out.append(None)  # filled after observers ran? observers run when the generator resumes
        out[-1] = "pending"
    return out


def run_and_record(mc, n):
    """digests after each completed step (taken when irun resumes, i.e. after the observers of that step)"""
    digs = []
    it = mc.irun(n)
    first = True
    for st in it:
        if not first:
            digs.append(digest(mc))
        first = False
        for _ in st:
            pass
    if n > 0:
        digs.append(digest(mc))
    return digs


CLASS = None


def driver_class(name):
    import quansino.mc.isotension  # noqa: F401
    from quansino.mc import canonical, gcmc, isobaric, isotension

    return {"Canonical": canonical.Canonical, "HamiltonianCanonical": canonical.HamiltonianCanonical, "Isobaric": isobaric.Isobaric, "Isotension": isotension.Isotension, "GrandCanonical": gcmc.GrandCanonical}[name]


def compare(a, b):
    for k in ("n", "numbers", "pos", "cell", "mom", "hist", "labels", "nexch", "step", "rng", "settings"):
        if a[k] != b[k]:
            return k
    if not (a["lastE"] == b["lastE"] or abs(a["lastE"] - b["lastE"]) <= 1e-12 * max(1.0, abs(a["lastE"]))):
        return "lastE"
    return None


def run(tier: str) -> int:
    from ase.io.jsonio import read_json

    rep = Report("C07", tier, "fault_enumeration")
    warnings.simplefilter("ignore")
    tmp = tempfile.mkdtemp(prefix="c07_")
    try:
        out = os.path.join(tmp, "rst.ndjson")
        env = {"RST_OUT": out}
        if tier == "thorough":
            env["RST_N"] = "6"
        r = run_tlc("Restart", "MC_Restart.cfg", workers=4, env=env, timeout=1200)
        if not r.ok:
            if r.invariant_violated:
                rep.violation(f"model:{r.invariant_violated[0]}", "TLC: Restart.tla: a future-relevant field is not in the saved dictionary", {"tlc": r.out[-2000:]})
            else:
                rep.error(f"TLC failed on Restart: {r.out[-1500:]}")
            return rep.finish()
        tuples = [json.loads(l) for l in open(out)]
    finally:
        shutil.rmtree(tmp, ignore_errors=True)
    nrestart = 0
    seeds = [rep.seed % 997 + 3, rep.seed % 997 + 11, rep.seed % 997 + 29] if tier == "quick" else [rep.seed % 997 + 3, rep.seed % 997 + 4, 2**40 + 17]
    for t in sorted(tuples, key=lambda x: (x["ens"], x["table"])):
        ens, table, n = t["ens"], t["table"], t["n"]
        for seed in seeds:
            for calc_kind in (["harm"] if tier == "quick" else ["harm", "pair"]):
                ctx = {"ens": ens, "table": table, "n": n, "seed": seed, "calc": calc_kind}
                cap = CaptureFile()
                try:
                    mc = build(ens, table, seed, calc_kind, cap)
                    ref = run_and_record(mc, n)
                except Exception as ex:  # noqa: BLE001
                    rep.violation(f"uninterrupted-run-raises:{ens}:{type(ex).__name__}", f"{ens}/{table}: the uninterrupted run with a restart observer raised {type(ex).__name__}: {str(ex)[:160]}", ctx)
                    continue
                # one snapshot per observer call: step 0 .. n
                snaps = cap.snapshots
                if len(snaps) != n + 1:
                    rep.violation(f"restart-file-count:{ens}", f"{ens}/{table}: the restart observer wrote {len(snaps)} times for {n} steps (expected {n + 1})", ctx)
                    continue
                accs = {v for d in ref for _, v in d["hist"]}
                for k in range(n + 1):
                    nrestart += 1
                    rep.count((ens, table, seed, calc_kind, k), nontrivial=(k < n and True in accs and (False in accs or None in accs)))
                    try:
                        data = read_json(io.StringIO(snaps[k]))
                        mc2 = driver_class(ens).from_dict(data)
                        mc2.atoms.calc = fresh_calc("pair" if (ens == "GrandCanonical" and table == "exch_molecular") else calc_kind)
                        got = run_and_record(mc2, n - k)
                    except Exception as ex:  # noqa: BLE001
                        rep.violation(f"restart-raises:{ens}:{type(ex).__name__}:{table if ens == 'GrandCanonical' else ''}", f"{ens}/{table}: rebuilding from the restart file of step {k} and continuing raised {type(ex).__name__}: {str(ex)[:200]}", dict(ctx, k=k))
                        break
                    want = ref[k:]
                    bad = None
                    for j, (g, w) in enumerate(zip(got, want)):
                        bad = compare(g, w)
                        if bad:
                            rep.violation(f"diverges:{ens}:{table}:{bad}", f"{ens}/{table}: restarted from step {k}, step {k + j + 1} differs from the uninterrupted run in '{bad}'", dict(ctx, k=k, step=k + j + 1, restarted=g, uninterrupted=w))
                            break
                    if bad:
                        break
                    if len(got) != len(want):
                        rep.violation(f"step-count:{ens}", f"{ens}/{table}: restarted run performed {len(got)} steps, expected {len(want)}", dict(ctx, k=k))
                        break
                if len(rep.samples) < 4:
                    rep.sample({"tuple": t, "seed": seed, "restart_points": list(range(n + 1)), "history_step1": ref[0]["hist"] if ref else []})
    # ---- the restart FILE: what a reader finds under the restart path after every step is the document whose restart was
    # just checked -- for a path the driver opens itself, in both logging modes, fresh or already holding the (longer)
    # document of an earlier run --------------------------------------------------------------------------------------
    npaths = 0
    seen_ens = set()
    tmp2 = tempfile.mkdtemp(prefix="c07p_")
    try:
        for t in sorted(tuples, key=lambda x: (x["ens"], x["table"])):
            ens, table, n = t["ens"], t["table"], t["n"]
            if ens in seen_ens and not (tier == "thorough" and len([e for e in seen_ens if e == ens]) < 2):
                continue
            seen_ens.add(ens)
            seed = seeds[0]
            for mode in ("a", "w"):
                cap = CaptureFile()   # (the document records the logging mode: one reference run per mode)
                try:
                    run_and_record(build(ens, table, seed, "harm", cap, {"logging_mode": mode}), n)
                except Exception:  # noqa: BLE001
                    continue   # (reported above)
                for old in (False, True):
                    npaths += 1
                    path = os.path.join(tmp2, f"{ens}_{mode}_{int(old)}.json")
                    if old:
                        with open(path, "w") as fh:
                            fh.write(cap.snapshots[-1] + " " * 400 + "\n")   # an earlier run's document, longer than any of this run
                    ctx = {"ens": ens, "table": table, "n": n, "seed": seed, "mode": mode, "path_held_a_document": old}
                    rep.count((ens, table, "restart-path", mode, old), nontrivial=True)
                    try:
                        mc = build(ens, table, seed, "harm", path, {"logging_mode": mode})
                        k = 0
                        for st in mc.irun(n):
                            text = open(path).read()
                            if text != cap.snapshots[k]:
                                try:
                                    read_json(io.StringIO(text))
                                    what = "another-document"
                                except Exception:  # noqa: BLE001
                                    what = "not-one-json-document"
                                rep.violation(f"restart-path:{what}:mode-{mode}{':over-old-document' if old else ''}", f"{ens}/{table}: after the observer calls of step {k} the restart path (logging_mode '{mode}'{', the path held an earlier document' if old else ''}) holds {len(text)} bytes, the observer's document has {len(cap.snapshots[k])}: {what}", dict(ctx, k=k, head=text[:80], tail=text[-80:]))
                                break
                            k += 1
                            for _ in st:
                                pass
                        mc.close()
                    except Exception as ex:  # noqa: BLE001
                        rep.violation(f"restart-path:raises:{ens}:{type(ex).__name__}", f"{ens}/{table}: a run writing its restart file to a path (mode '{mode}') raised {type(ex).__name__}: {str(ex)[:200]}", ctx)
    finally:
        shutil.rmtree(tmp2, ignore_errors=True)
    rep.add(restart_paths_read_back=npaths)
    # ---- force bias: offers restart_file but no from_dict: only "the observer can write its file" -------------
    from quansino.mc.fbmc import AdaptiveForceBias, ForceBias

    for cls, kw in ((ForceBias, {"delta": 0.1}), (AdaptiveForceBias, {"min_delta": 0.05, "max_delta": 0.2})):
        cap = CaptureFile()
        rep.count(("fbmc", cls.__name__))
        try:
            a = base_atoms(4)
            a.calc = fresh_calc("harm")
            fb = cls(a, temperature=600.0, seed=5, restart_file=cap, logging_interval=1, **kw)
            fb.run(2)
            for s in cap.snapshots:
                read_json(io.StringIO(s))
            if len(cap.snapshots) != 3:
                rep.violation(f"restart-file-count:{cls.__name__}", f"{cls.__name__} wrote {len(cap.snapshots)} restart files for 2 steps", {})
        except Exception as ex:  # noqa: BLE001
            rep.violation(f"restart-observer-raises:{cls.__name__}:{type(ex).__name__}", f"{cls.__name__} accepts restart_file but its restart observer raises {type(ex).__name__}: {str(ex)[:160]}", {})
    rep.add(states=r.distinct, transitions=r.generated, traces_validated_against_impl=nrestart, exhaustive=True, tuples=len(tuples), evaluations=nrestart,
            rule="restart points: every k in 0..n of every <ensemble, move-table shape> tuple enumerated by Restart.tla (22 shapes over Canonical, HamiltonianCanonical, Isobaric, Isotension, GrandCanonical: all displacement operations, composite operations, masked and unscaled deformations, composite displacement / exchange moves, molecular exchange, default labels, insertion bias, interval / probability / minimum count, the same move under two names), rebuilt from the BYTES the RestartObserver wrote; non-trivial = k < n and the run contains an accepted and a rejected/failed trial")
    rep.assumptions += ["calculators are deterministic functions of the configuration (harmonic, pair) and are re-attached fresh after the restart, as the statement says", "ForceBias / AdaptiveForceBias offer no from_dict: only that their restart observer writes loadable JSON is checked", "callables (check_move, distribution) are excepted"]
    return rep.finish()
