"""Calculators defined by the harness (all are ordinary ASE calculators).

style "internal": EMT / LennardJones keep a neighbour list sized for the atoms
                  they last saw (per-atom internal state)
style "rebuild" : EAM-like: rebuilds everything on any change (here: a pair
                  potential that recomputes from scratch, but caches results)
style "caching" : Harmonic / Table: only the standard ASE results cache
"""

from __future__ import annotations

import numpy as np
from ase.calculators.calculator import Calculator, all_changes
from ase.calculators.emt import EMT
from ase.calculators.lj import LennardJones


class CountingMixin:
    ncalc = 0

    def calculate(self, atoms=None, properties=("energy",), system_changes=all_changes):
        self.ncalc += 1
        return super().calculate(atoms, properties, system_changes)


class CountingEMT(CountingMixin, EMT):
    style = "internal"


class CountingLJ(CountingMixin, LennardJones):
    style = "internal"


def _species_field(atoms, z, e, f):
    """E += z sum_i Z_i sin(0.37 (x_i + y_i + z_i)): two atoms of different species that change places change the energy"""
    u = 0.37 * atoms.positions.sum(axis=1)
    zz = atoms.numbers.astype(float)
    e = e + z * float((zz * np.sin(u)).sum())
    f = f - (z * 0.37 * zz * np.cos(u))[:, None]
    return e, f


class Harmonic(Calculator):
    """E = k/2 sum |r_i - r0_i|^2 for the first len(r0) atoms, plus eps per extra atom
    and a cell term; no internal state beyond the standard results cache."""

    implemented_properties = ("energy", "forces")
    style = "caching"

    def __init__(self, k=1.0, centers=None, eps=0.05, cellk=0.0, zterm=0.0, **kw):
        super().__init__(**kw)
        self.zterm = zterm   # species-dependent field: E depends on WHICH atom sits where (0: species-blind)
        self.k = k
        self.centers = None if centers is None else np.array(centers, float)
        self.eps = eps
        self.cellk = cellk
        self.ncalc = 0

    def calculate(self, atoms=None, properties=("energy",), system_changes=all_changes):
        super().calculate(atoms, properties, system_changes)
        self.ncalc += 1
        pos = self.atoms.positions
        n = len(pos)
        c = self.centers if self.centers is not None else np.zeros((n, 3))
        m = min(n, len(c))
        d = pos[:m] - c[:m]
        e = 0.5 * self.k * float((d * d).sum())
        f = np.zeros((n, 3))
        f[:m] = -self.k * d
        # a smooth pair-independent term so that inserted atoms matter too
        extra = pos[m:]
        e += float(self.eps * np.sin(extra).sum()) + self.eps * (n - m)
        f[m:] = -self.eps * np.cos(extra)
        e += self.cellk * float(self.atoms.cell.volume)
        if self.zterm:
            e, f = _species_field(self.atoms, self.zterm, e, f)
        self.results = {"energy": e, "forces": f}


class PairRebuild(Calculator):
    """Soft pair potential, O(N^2) from scratch on every calculation (no
    per-atom state survives between calls): the 'rebuilds everything' style."""

    implemented_properties = ("energy", "forces")
    style = "rebuild"

    def __init__(self, a=1.0, rc=3.0, zterm=0.0, **kw):
        super().__init__(**kw)
        self.zterm = zterm
        self.a = a
        self.rc = rc
        self.ncalc = 0

    def calculate(self, atoms=None, properties=("energy",), system_changes=all_changes):
        super().calculate(atoms, properties, system_changes)
        self.ncalc += 1
        at = self.atoms
        n = len(at)
        e = 0.0
        f = np.zeros((n, 3))
        if n > 1:
            d = at.get_all_distances(mic=True, vector=True)
            r = np.linalg.norm(d, axis=2)
            for i in range(n):
                for j in range(i + 1, n):
                    if r[i, j] < self.rc:
                        x = 1 - r[i, j] / self.rc
                        e += self.a * x * x
                        if r[i, j] > 1e-12:
                            g = 2 * self.a * x / self.rc * d[i, j] / r[i, j]  # d = r_j - r_i
                            f[i] -= g
                            f[j] += g
        e += 0.01 * n * float(at.cell.volume) ** (1 / 3)
        # weak external field: makes the energy a non-degenerate function of the configuration
        e += 0.02 * float(np.sin(at.positions * 0.7).sum())
        f -= 0.02 * 0.7 * np.cos(at.positions * 0.7)
        if self.zterm:
            e, f = _species_field(at, self.zterm, e, f)
        self.results = {"energy": e, "forces": f}


class TableCalc(Calculator):
    """Energy is a function of the configuration chosen by the harness:
    a configuration seen for the first time gets  E(reference) + next_delta,
    a configuration seen before gets the energy it had (energy is a function
    of the configuration).  Used to force accept / reject through the *real*
    criteria."""

    implemented_properties = ("energy", "forces")
    style = "caching"

    def __init__(self, **kw):
        super().__init__(**kw)
        self.table: dict[bytes, float] = {}
        self.next_delta = 0.0
        self.reference = 0.0
        self.ncalc = 0

    def __deepcopy__(self, memo):
        c = TableCalc()
        c.table, c.next_delta, c.reference, c.ncalc = self.table, self.next_delta, self.reference, self.ncalc
        c.atoms = None if self.atoms is None else self.atoms.copy()
        c.results = dict(self.results)
        return c

    @staticmethod
    def key(atoms):
        return atoms.numbers.tobytes() + atoms.positions.tobytes() + np.asarray(atoms.cell.array).tobytes()

    def energy_of(self, atoms):
        k = self.key(atoms)
        if k not in self.table:
            # (1e-7 * index: keeps E a non-degenerate function of the configuration)
            self.table[k] = self.reference + self.next_delta + 1e-7 * (len(self.table) % 1000)
        return self.table[k]

    def calculate(self, atoms=None, properties=("energy",), system_changes=all_changes):
        super().calculate(atoms, properties, system_changes)
        self.ncalc += 1
        e = self.energy_of(self.atoms)
        self.results = {"energy": e, "forces": np.zeros((len(self.atoms), 3))}


def new_like(calc):
    """A new, never-used calculator of the same class and parameters (what a user attaches after a restart)."""
    if isinstance(calc, CountingEMT):
        return CountingEMT()
    if isinstance(calc, CountingLJ):
        return CountingLJ(**{k: v for k, v in calc.parameters.items()})
    return fresh_like(calc)


def fresh_like(calc):
    """An independent calculator of the same kind with the same parameters
    (for from-scratch evaluation of a configuration)."""
    if isinstance(calc, CountingEMT):
        return EMT()
    if isinstance(calc, CountingLJ):
        return LennardJones(**{k: v for k, v in calc.parameters.items()})
    if isinstance(calc, Harmonic):
        return Harmonic(calc.k, calc.centers, calc.eps, calc.cellk, zterm=calc.zterm)
    if isinstance(calc, PairRebuild):
        return PairRebuild(calc.a, calc.rc, zterm=calc.zterm)
    if isinstance(calc, TableCalc):
        c = TableCalc()
        c.table = calc.table  # shared table: the function E(configuration) itself
        c.reference = calc.reference
        c.next_delta = calc.next_delta
        return c
    raise TypeError(type(calc))
