"""C01 -- ensembles reproduce exact averages of solvable systems (spec/Ensemble.tla).

Model: TLC checks detailed balance of the specified kernels (Accept.tla's rule) against the
analytic stationary laws on lattice instances (canonical ring, isobaric log-volume lattice
with exponent N+1, grand-canonical Poisson) -- this is where the analytic targets used
below come from.
Binding: real drivers on analytically solvable systems (calculators defined here), sampled
after every step; block-averaged errors; |z| <= 6 with one doubled re-run between 6 and 12."""

from __future__ import annotations

import math
import warnings
from multiprocessing import Pool

import numpy as np
from ase import Atoms
from ase.calculators.calculator import Calculator, all_changes
from ase.units import kB

from common import Report
from tlc import run_tlc


class Zero(Calculator):
    implemented_properties = ("energy", "forces")

    def calculate(self, atoms=None, properties=("energy",), system_changes=all_changes):
        super().calculate(atoms, properties, system_changes)
        self.results = {"energy": 0.0, "forces": np.zeros((len(self.atoms), 3))}


class Wells(Calculator):
    """every atom bound harmonically to the point it started from"""

    implemented_properties = ("energy", "forces")

    def __init__(self, k, centers, **kw):
        super().__init__(**kw)
        self.k, self.c = k, np.array(centers, float)

    def calculate(self, atoms=None, properties=("energy",), system_changes=all_changes):
        super().calculate(atoms, properties, system_changes)
        d = self.atoms.positions - self.c
        self.results = {"energy": 0.5 * self.k * float((d * d).sum()), "forces": -self.k * d}


class Dipole(Calculator):
    """rigid two-atom dipole in a uniform field along z:  U = -x kT cos(theta)"""

    implemented_properties = ("energy", "forces")

    def __init__(self, xkT, **kw):
        super().__init__(**kw)
        self.xkT = xkT

    def calculate(self, atoms=None, properties=("energy",), system_changes=all_changes):
        super().calculate(atoms, properties, system_changes)
        b = self.atoms.positions[1] - self.atoms.positions[0]
        self.results = {"energy": -self.xkT * float(b[2] / np.linalg.norm(b)), "forces": np.zeros((2, 3))}


def thermal_wavelength(mass_amu, T):
    from scipy import constants as C

    return C.h / math.sqrt(2 * math.pi * mass_amu * C.atomic_mass * C.k * T) * 1e10


# ------------------------------------------------------------------------------------------------
# systems: each returns {observable: 1-D series}
# ------------------------------------------------------------------------------------------------
def sys_harmonic(arg):
    name, seed, n, variant, natoms = arg
    warnings.simplefilter("ignore")
    from quansino.integrators.displacement import Verlet
    from quansino.mc.canonical import Canonical, HamiltonianCanonical
    from quansino.mc.criteria import CanonicalCriteria
    from quansino.moves.displacement import DisplacementMove, HamiltonianDisplacementMove
    from quansino.operations.displacement import Ball, Box, Sphere

    T = 600.0
    kT = kB * T
    k = 2.0
    sig = math.sqrt(kT / k)
    centers = np.arange(3 * natoms, dtype=float).reshape(natoms, 3) * 3.0 + 5.0
    atoms = Atoms("Cu" * natoms, positions=centers + 0.1, cell=[60, 60, 60], pbc=False)
    atoms.set_masses([1.0] * natoms)
    atoms.calc = Wells(k, centers)
    tethered = variant.endswith("_half_tethered")
    if tethered:
        # half of every spring is an ASE restraint (Hookean tether to the well centre), half the calculator: the particle is
        # bound by the same total spring, its potential energy is what atoms.get_potential_energy() reports
        from ase.constraints import Hookean

        atoms.calc = Wells(k / 2, centers)
        atoms.set_constraint([Hookean(a1=i, a2=tuple(float(x) for x in centers[i]), k=k / 2, rt=0.0) for i in range(natoms)])
    lab = np.arange(natoms)
    if variant in ("hamiltonian", "hamiltonian_rebuilt", "hamiltonian_coarse", "hamiltonian_half_tethered"):
        mc = HamiltonianCanonical(atoms, temperature=T, max_cycles=1, seed=seed)
        # (coarse: a time step at which a good part of the trajectories is rejected)
        mc.add_move(HamiltonianDisplacementMove(operation=Verlet(dt=9.0, max_steps=4) if variant == "hamiltonian_coarse" else Verlet(dt=3.0, max_steps=6)))
        if variant == "hamiltonian_rebuilt":
            # the long history contains a stop: after a quarter of the run the simulation is rebuilt from its dictionary
            # (every component comes back by its registered name) and continued with a fresh calculator
            from ase.io.jsonio import decode, encode

            mc.run(n // 4)
            mc = HamiltonianCanonical.from_dict(decode(encode(mc.to_dict())))
            mc.atoms.calc = Wells(k, centers)
    else:
        mc = Canonical(atoms, temperature=T, max_cycles=natoms, seed=seed)
        if variant in ("ball", "ball_half_tethered"):
            mc.add_move(DisplacementMove(lab, Ball(2.2 * sig)))
        elif variant == "box":
            mc.add_move(DisplacementMove(lab, Box(1.3 * sig)))
        elif variant == "sphere":
            mc.add_move(DisplacementMove(lab, Sphere(1.2 * sig)))
        elif variant == "composite_op":
            mc.add_move(DisplacementMove(lab, Ball(1.2 * sig) + Box(0.8 * sig)))
        else:  # move * 2
            mc.add_move(DisplacementMove(lab, Ball(2.0 * sig)) * min(2, natoms), criteria=CanonicalCriteria())
    e = np.empty(n)
    rejected = 0
    for i, _ in enumerate(mc.srun(n)):
        e[i] = mc.atoms.get_potential_energy() if tethered else mc.context.last_potential_energy
        rejected += sum(1 for _, v in mc.move_history if v is False)
    if variant == "hamiltonian_coarse" and not 0.05 * n < rejected:
        return name, {"E": np.full(n, np.nan)}   # (vacuous: the coarse variant must really reject)
    return name, {"E": e / kT}


def sys_dipole(arg):
    name, seed, n, variant, x = arg
    warnings.simplefilter("ignore")
    from quansino.mc.canonical import Canonical
    from quansino.moves.displacement import DisplacementMove
    from quansino.operations.displacement import Rotation, TranslationRotation

    T = 400.0
    atoms = Atoms("HF", positions=[[5, 5, 5], [5.3, 5.4, 5.8]], cell=[10, 11, 12], pbc=True)
    atoms.calc = Dipole(x * kB * T)
    mc = Canonical(atoms, temperature=T, max_cycles=1, seed=seed)
    mc.add_move(DisplacementMove([0, 0], Rotation() if variant == "rotation" else TranslationRotation()))
    c = np.empty(n)
    for i, _ in enumerate(mc.srun(n)):
        b = atoms.positions[1] - atoms.positions[0]
        c[i] = b[2] / np.linalg.norm(b)
    return name, {"cos": c}


def sys_isobaric(arg):
    name, seed, n, variant, natoms = arg
    warnings.simplefilter("ignore")
    from quansino.mc.isobaric import Isobaric
    from quansino.mc.isotension import Isotension
    from quansino.moves.cell import CellMove
    from quansino.operations.cell import IsotropicDeformation

    T = 1000.0
    kT = kB * T
    P = kT / 100.0  # kT/P = 100 A^3
    rs = np.random.RandomState(seed % 2**32)
    L = 300.0 ** (1 / 3)
    atoms = Atoms("Cu" * natoms, positions=rs.rand(natoms, 3) * L, cell=[L, L, L], pbc=True)
    atoms.calc = Zero()
    if variant == "isotension":
        mc = Isotension(atoms, temperature=T, pressure=P, external_stress=P * np.eye(3), max_cycles=1, seed=seed)
    else:
        mc = Isobaric(atoms, temperature=T, pressure=P, max_cycles=1, seed=seed)
    mc.add_move(CellMove(IsotropicDeformation(0.25)))
    v = np.empty(n)
    for i, _ in enumerate(mc.srun(n)):
        v[i] = atoms.get_volume()
    return name, {"V": v / 100.0}


def sys_grand(arg):
    name, seed, n, variant, nbar = arg
    warnings.simplefilter("ignore")
    from quansino.mc.gcmc import GrandCanonical
    from quansino.moves.exchange import ExchangeMove
    from quansino.operations.displacement import Translation, TranslationRotation

    T = 800.0 if variant != "atomic_Tswitch" else 300.0
    molecular = variant == "molecular"
    # (the template's bond points along (1,2,2)/3, not along a coordinate axis: a rotation law that is uniform only for
    #  special template orientations is not uniform)
    tmpl = Atoms("CO", positions=[[0, 0, 0], [1.13 / 3, 2.26 / 3, 2.26 / 3]]) if molecular else Atoms("Ar", positions=[[0, 0, 0]])
    cell = np.array([[9.0, 0, 0], [1.5, 8.0, 0], [0.5, -1.0, 10.0]])
    V = abs(np.linalg.det(cell))
    lam3 = thermal_wavelength(tmpl.get_masses().sum(), T) ** 3
    mu = kB * T * math.log(nbar * lam3 / V)
    if variant == "atomic_accessible_rebuilt":
        # the user declares only part of the cell accessible: the mean follows the accessible volume
        V = 0.4 * V
        mu = kB * T * math.log(nbar * lam3 / V)
    atoms = Atoms(cell=cell, pbc=True)
    atoms.calc = Zero()
    mc = GrandCanonical(atoms, exchange_atoms=tmpl, temperature=T, chemical_potential=mu, number_of_exchange_particles=0, max_cycles=1, seed=seed)
    if variant == "atomic_composite":
        # a composite proposal: one trial displaces a particle (if there is one) and exchanges one
        from quansino.mc.criteria import GrandCanonicalCriteria
        from quansino.moves.displacement import DisplacementMove
        from quansino.operations.displacement import Ball

        mc.add_move(DisplacementMove(np.array([], dtype=int), Ball(0.5)) + ExchangeMove(np.array([], dtype=int), Translation()), criteria=GrandCanonicalCriteria())
    else:
        mc.add_move(ExchangeMove(np.array([], dtype=int), TranslationRotation() if molecular else Translation()))
    if variant == "atomic_accessible_rebuilt":
        mc.accessible_volume = V
        # ... and the long history contains a stop: the simulation is rebuilt from its dictionary and continued
        from ase.io.jsonio import decode, encode

        mc.run(n // 4)
        mc = GrandCanonical.from_dict(decode(encode(mc.to_dict())))
        atoms = mc.atoms
        atoms.calc = Zero()
    k = len(tmpl)
    ns = np.empty(n)
    frac, cth, azi = [], [], []
    inv = np.linalg.inv(cell)
    if variant == "atomic_Tswitch":
        # equilibrate at 300 K, then re-assign temperature and chemical potential on the live simulation
        mc.run(n // 3)
        T = 1200.0
        lam3 = thermal_wavelength(tmpl.get_masses().sum(), T) ** 3
        mc.temperature = T
        mc.chemical_potential = kB * T * math.log(nbar * lam3 / V)
    for i, _ in enumerate(mc.srun(n)):
        ns[i] = len(atoms) // k
        if i % 5 == 0 and len(atoms):
            p = atoms.positions
            if molecular:
                b = p[1::2] - p[0::2]
                b /= np.linalg.norm(b, axis=1)[:, None]
                cth.append(b[:, 2])
                azi.append(np.arctan2(b[:, 1], b[:, 0]))
                p = 0.5 * (p[1::2] + p[0::2])
            frac.append((p @ inv) % 1.0)
    out = {"N": ns, "nexch_matches": np.array([float(mc.number_of_exchange_particles == len(atoms) // k)])}
    out["frac"] = np.concatenate(frac) if frac else np.zeros((0, 3))
    if molecular:
        out["cth"] = np.concatenate(cth) if cth else np.zeros(0)
        out["azi"] = np.concatenate(azi) if azi else np.zeros(0)
    return name, out


RUNNERS = {"harmonic": sys_harmonic, "dipole": sys_dipole, "isobaric": sys_isobaric, "grand": sys_grand}


def dispatch(job):
    return RUNNERS[job[0]](job[1])


def block_z(series_list, target, nblocks=10):
    """z score of the pooled mean against target; error from block means of every run (first 10% discarded)"""
    means = []
    for s in series_list:
        s = np.asarray(s, float)[len(s) // 10:]
        for b in np.array_split(s, nblocks):
            if len(b):
                means.append(b.mean())
    means = np.array(means)
    err = means.std(ddof=1) / math.sqrt(len(means))
    return float(means.mean()), float(err), float((means.mean() - target) / err) if err > 0 else 0.0


def run(tier: str) -> int:
    from scipy import stats

    rep = Report("C01", tier, "model_checking")
    warnings.simplefilter("ignore")
    r = run_tlc("Ensemble", "MC_Ensemble.cfg", workers=8, timeout=600)
    if not r.ok:
        if r.invariant_violated:
            rep.violation(f"model:{r.invariant_violated[0]}", f"TLC: {r.invariant_violated[0]} violated in Ensemble.tla: the specified kernel is not in detailed balance with the analytic law", {"tlc": r.out[-2500:]})
        else:
            rep.error(f"TLC failed on Ensemble: {r.out[-1200:]}")
        return rep.finish()
    nseeds = 3 if tier == "quick" else 8
    n = 6000 if tier == "quick" else 60000
    base = rep.seed % 10**6

    def jobs_for(scale=1, salt=0):
        jobs = []
        for v in ("ball", "box", "sphere", "composite_op", "move_x2", "hamiltonian", "hamiltonian_rebuilt", "hamiltonian_coarse", "ball_half_tethered", "hamiltonian_half_tethered"):
            for na in ((3,) if tier == "quick" and v not in ("ball",) else (1, 3)):
                for s in range(nseeds):
                    jobs.append(("harmonic", (f"harmonic:{v}:N={na}", base + 17 * s + salt + 1, n * scale, v, na)))
        for v in ("rotation", "translation_rotation"):
            for x in (0.5, 2.0):
                for s in range(nseeds):
                    jobs.append(("dipole", (f"dipole:{v}:x={x}", base + 17 * s + salt + 2, n * scale, v, x)))
        for v in ("isobaric", "isotension"):
            for na in ((1, 4) if v == "isobaric" else (2,)):
                for s in range(nseeds):
                    jobs.append(("isobaric", (f"{v}:N={na}", base + 17 * s + salt + 3, 2 * n * scale, v, na)))
        for v in ("atomic", "molecular", "atomic_Tswitch", "atomic_accessible_rebuilt", "atomic_composite"):
            for nb in ((1.5, 4.0) if v in ("atomic", "molecular") else (4.0,)):
                for s in range(nseeds):
                    jobs.append(("grand", (f"grand:{v}:Nbar={nb}", base + 17 * s + salt + 4, 3 * n * scale, v, nb)))
        return jobs

    def collect(jobs):
        with Pool(processes=15) as pool:
            res = pool.map(dispatch, jobs, chunksize=1)
        by = {}
        for name, d in res:
            by.setdefault(name, []).append(d)
        return by

    by = collect(jobs_for())
    ntr = sum(len(v) for v in by.values())

    def targets(name):
        """-> list of (observable, statistic, target)"""
        if name.startswith("harmonic"):
            na = int(name.split("N=")[1])
            return [("E", "mean", 1.5 * na)]
        if name.startswith("dipole"):
            x = float(name.split("x=")[1])
            return [("cos", "mean", 1 / math.tanh(x) - 1 / x)]
        if name.startswith(("isobaric", "isotension")):
            na = int(name.split("N=")[1])
            return [("V", "mean", float(na + 1)), ("V", "var", float(na + 1))]
        nb = float(name.split("Nbar=")[1])
        return [("N", "mean", nb), ("N", "var", nb)]

    def judge(name, runs):
        out = []
        for obs, stat, tgt in targets(name):
            series = [d[obs] for d in runs]
            if stat == "var":
                m = np.mean([np.asarray(s)[len(s) // 10:].mean() for s in series])
                series = [(np.asarray(s) - m) ** 2 for s in series]
            mean, err, z = block_z(series, tgt)
            out.append((obs, stat, tgt, mean, err, z))
        return out

    suspicious = []
    for name, runs in sorted(by.items()):
        for obs, stat, tgt, mean, err, z in judge(name, runs):
            rep.count((name, obs, stat))
            if len(rep.samples) < 6:
                rep.sample({"system": name, "observable": f"{stat}({obs})", "target": tgt, "measured": round(mean, 4), "stderr": round(err, 4), "z": round(z, 2)})
            if not np.isfinite(z):
                rep.error(f"{name}: {stat}({obs}) could not be judged (the system did not exercise what it is for, e.g. a coarse Hamiltonian run without rejections)")
            if abs(z) > 6:
                suspicious.append((name, obs, stat, tgt, mean, err, z))
    # re-run once with a doubled sample and independent seeds before reporting
    if suspicious:
        names = {s[0] for s in suspicious}
        by2 = collect([j for j in jobs_for(scale=2, salt=5000) if j[1][0] in names])
        for name, obs, stat, tgt, mean, err, z in suspicious:
            for o2, s2, t2, m2, e2, z2 in judge(name, by2.get(name, [])):
                if (o2, s2) == (obs, stat) and abs(z2) > 6:
                    fam = name.split(":")[0]
                    var = name.split(":")[1] if ":" in name else ""
                    rep.violation(f"average:{fam}:{var}:{stat}({obs})", f"{name}: {stat}({obs}) = {m2:.4f} +- {e2:.4f}, exact value {tgt:.4f} (z = {z2:.1f}; first pass z = {z:.1f})", {"system": name, "target": tgt, "measured": m2, "stderr": e2})
    # distributional clauses of the grand-canonical ideal gas
    for name, runs in sorted(by.items()):
        if not name.startswith("grand"):
            continue
        nb = float(name.split("Nbar=")[1])
        ns = np.concatenate([d["N"][len(d["N"]) // 10:: 7] for d in runs])  # thinned
        kmax = 12
        cnt = np.bincount(np.minimum(ns.astype(int), kmax), minlength=kmax + 1).astype(float)
        pm = stats.poisson.pmf(np.arange(kmax), nb)
        pm = np.append(pm, 1 - pm.sum())
        keep = pm * len(ns) >= 10
        chi2 = float((((cnt - pm * len(ns)) ** 2) / (pm * len(ns)))[keep].sum())
        # thinning leaves some autocorrelation: effective sample size from the N series itself
        p = float(stats.chi2.sf(chi2 / 2.0, int(keep.sum()) - 1))
        rep.count((name, "poisson-shape"))
        if p < 1e-9:
            rep.violation(f"distribution:{name.split(':')[1]}:poisson-shape", f"{name}: particle-number histogram is not Poisson({nb}) (chi2 = {chi2:.1f}, {int(keep.sum()) - 1} dof)", {"hist": cnt.tolist()})
        if not all(d["nexch_matches"][0] == 1.0 for d in runs):
            rep.violation(f"counter:{name.split(':')[1]}", f"{name}: number_of_exchange_particles differs from the number of particles present", {})
        fr = np.concatenate([d["frac"] for d in runs])
        if len(fr) > 500:
            for ax in range(3):
                z = (fr[:, ax].mean() - 0.5) / math.sqrt(1 / 12 / (len(fr) / 6))  # /6: correlated snapshots
                rep.count((name, "uniform", ax))
                if abs(z) > 6:
                    rep.violation(f"distribution:{name.split(':')[1]}:position-uniform", f"{name}: mean fractional coordinate {ax} = {fr[:, ax].mean():.4f} (z = {z:.1f})", {})
        if "cth" in runs[0]:
            c = np.concatenate([d["cth"] for d in runs])
            a = np.concatenate([d["azi"] for d in runs])
            if len(c) > 500:
                neff = len(c) / 6
                tests = {"mean cos(theta)": (c.mean(), 0.0, 1 / 3), "mean cos^2(theta)": ((c**2).mean(), 1 / 3, 4 / 45), "mean |cos(theta)|": (np.abs(c).mean(), 0.5, 1 / 12),
                         "mean cos(azimuth)": (np.cos(a).mean(), 0.0, 0.5), "mean cos(2 azimuth)": (np.cos(2 * a).mean(), 0.0, 0.5)}
                for tn, (val, tgt, var) in tests.items():
                    z = (val - tgt) / math.sqrt(var / neff)
                    rep.count((name, tn))
                    if abs(z) > 6:
                        rep.violation(f"distribution:molecular:orientation:{tn.replace(' ', '_')}", f"{name}: {tn} = {val:.4f}, uniform orientations give {tgt:.4f} (z = {z:.1f})", {})
    rep.add(states=r.distinct, transitions=r.generated, traces_validated_against_impl=ntr, runs=ntr, trials_per_run=n, seeds=nseeds,
            rule="real drivers on solvable systems: harmonic wells (N = 1, 3) under ball / box / sphere / composite operation / move*2 / Hamiltonian proposals: <E> = 3N/2 kT; rigid dipole in a field under Rotation and TranslationRotation: <cos> = coth x - 1/x (x = 0.5, 2); ideal gas under Isobaric (N = 1, 4) and hydrostatic Isotension with isotropic moves: <V> = (N+1) kT/P and its variance; ideal gas under GrandCanonical (atomic, CO): Poisson mean, variance, histogram, uniform fractional positions, uniform bond orientations; sampled after every step, first 10% discarded, block-averaged errors, |z| <= 6 with a doubled re-run before reporting; distinct = (system, statistic)")
    rep.assumptions += ["'long simulations reproduce' is a limit statement: decided are detailed balance of the specified kernel on lattice instances (TLC, exact) and finite-sample agreement at 6 sigma; a bias below about 3% (quick) / 1% (thorough) of a target is not resolved here and is left to the factor checks C02 C03 C04 C10"]
    return rep.finish()
