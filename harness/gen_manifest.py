"""Regenerates /verif/MANIFEST.json from the table below (single source of truth
for what is claimed).  Run:  /venv/bin/python harness/gen_manifest.py"""

from __future__ import annotations

import json
import subprocess
from pathlib import Path

VERIF = Path(__file__).resolve().parent.parent

ALL = [f"C{i:02d}" for i in range(1, 21)]

# id -> (category, technique, text, note, design_ref)
CLAIMS: dict[str, tuple[str, str, str, str, str]] = {}


def claim(pid, category, technique, text, note, ref):
    CLAIMS[pid] = (category, technique, text, note, ref)


claim("C17", "model_checking",
      "TLC exhaustive over expression trees (Algebra.tla) + replay of every tree into the real classes",
      "TLC checks Dispatch(t)=Meaning(t) (clause-by-clause transcription of __add__/__mul__ against the flattening semantics) on every tree up to the bound and checks the composite-call state machine; every tree TLC enumerated is rebuilt with real DisplacementMove/ExchangeMove/CellMove/HamiltonianDisplacementMove/user moves and Ball/Box/Rotation/user operations and compared on exact result type and element identities; refusal of non-positive-integer multipliers and call order/any() of plain composites are enumerated too. Exhaustive within the size bound, which is the right level for a finite case analysis.",
      "Trusted: TLC, the ndjson export, the Python tree builder. Bound: leaves+mul nodes <= 4 (quick) / 5 (thorough), multipliers 1..3.",
      "5 C17")

NOT_YET = "check not built yet in this round (planned in DESIGN.md section 5); will be claimed once its spec and conformance harness exist"


def main():
    try:
        hooks_commits = json.loads((VERIF / "hooks.json").read_text())["source_commits"]
    except Exception:  # noqa: BLE001
        hooks_commits = []
    checks = []
    for pid in ALL:
        if pid not in CLAIMS:
            continue
        cat, tech, text, note, ref = CLAIMS[pid]
        checks.append({
            "property_id": pid,
            "quick_cmd": f"./check {pid} quick",
            "thorough_cmd": f"./check {pid} thorough",
            "evidence_file": f"/verif/evidence/{pid}.json",
            "replay_cmd_template": f"./check {pid} --replay {{path}}",
            "engine": "tlc+harness",
            "level_claimed": {"category": cat, "text": text, "design_ref": f"DESIGN.md section {ref}"},
            "level_note": note,
            "technique": tech,
        })
    manifest = {
        "version": 1,
        "setup_cmd": "./setup.sh",
        "hooks": {
            "guard": "QUANSINO_VERIF",
            "enable": "no build step: /venv imports /repo/src (editable install); ./check exports QUANSINO_VERIF=1 and PYTHONPATH=/repo/src",
            "baseline_off_cmd": "cd /repo && env -u QUANSINO_VERIF /venv/bin/python -m pytest -ra -q -p no:cacheprovider --timeout=900 --continue-on-collection-errors",
            "source_commits": hooks_commits,
            "add_only": True,
        },
        "engines": [
            {"name": "tlc+harness", "path": "/verif/check", "serves_properties": sorted(CLAIMS),
             "kind_free_text": "explicit TLA+ specifications in /verif/spec checked by TLC 1.8; conformance harness in /verif/harness (Python, /venv) replays TLC-generated cases/behaviours into quansino and validates traces recorded from quansino against the spec"},
        ],
        "checks": checks,
        "not_applicable": [{"property_id": p, "reason": NOT_YET} for p in ALL if p not in CLAIMS],
        "notes": "Model-based verification with explicit TLA+ specifications (see DESIGN.md). Genuine defects of the pinned tree are either repaired by 'fix:' commits in /repo or listed in /verif/known_findings.json.",
    }
    (VERIF / "MANIFEST.json").write_text(json.dumps(manifest, indent=1) + "\n")
    # validate
    r = subprocess.run(["python3-vt", "-c", "import json,jsonschema,sys; jsonschema.validate(json.load(open(sys.argv[1])), json.load(open('/root/.vp/MANIFEST.schema.json')))", str(VERIF / "MANIFEST.json")], capture_output=True, text=True)
    if r.returncode != 0:
        print(r.stderr[-2000:])
        raise SystemExit("MANIFEST.json does not validate")
    print("MANIFEST.json written:", len(checks), "checks,", len(manifest["not_applicable"]), "not applicable")


if __name__ == "__main__":
    main()
