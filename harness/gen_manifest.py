"""Regenerates /verif/MANIFEST.json from the table below (single source of truth
for what is claimed).  Run:  /venv/bin/python harness/gen_manifest.py"""

from __future__ import annotations

import json
import subprocess
from pathlib import Path

VERIF = Path(__file__).resolve().parent.parent

ALL = [f"C{i:02d}" for i in range(1, 21)]

# id -> (category, technique, text, note, design_ref)
CLAIMS: dict[str, tuple[str, str, str, str, str]] = {}


def claim(pid, category, technique, text, note, ref):
    CLAIMS[pid] = (category, technique, text, note, ref)


claim("C17", "model_checking",
      "TLC exhaustive over expression trees (Algebra.tla) + replay of every tree into the real classes",
      "TLC checks Dispatch(t)=Meaning(t) (clause-by-clause transcription of __add__/__mul__ against the flattening semantics) on every tree up to the bound and checks the composite-call state machine; every tree TLC enumerated is rebuilt with real DisplacementMove/ExchangeMove/CellMove/HamiltonianDisplacementMove/user moves and Ball/Box/Rotation/user operations and compared on exact result type and element identities; refusal of non-positive-integer multipliers and call order/any() of plain composites are enumerated too. Exhaustive within the size bound, which is the right level for a finite case analysis.",
      "Trusted: TLC, the ndjson export, the Python tree builder. Bound: leaves+mul nodes <= 4 (quick) / 5 (thorough), multipliers 1..3.",
      "5 C17")

ENGINE_NOTE = ("Trusted: TLC, the Json module, the projection harness/project.py (tokens = interned raw bytes; energy ownership by from-scratch "
               "evaluation with an independent calculator instance, rel. tol. 1e-9), recording subclasses of the shipped moves. Bounded by the seeded "
               "scenario grammar (2-8 atoms, <= 9 steps x <= 3 cycles per trace); recorded findings truncate a trace when they corrupt it persistently.")

claim("C03", "model_checking",
      "trace validation: TLC checks every recorded trial of real runs against QMC.tla (Reject/NotAttempted restore the pre-trial state; no pending bookkeeping)",
      "QMC.tla specifies the engine with tokens for all continuous data; every event (yield, move return, evaluate, end of trial) of hundreds of seeded real simulations of all drivers, with composites, vetoing check_move, pre-selections, constraints, extra arrays and five calculators, is validated by TLC: the state predicted by the spec action must equal the observed state field by field and C03_Restored / C03_NoLeak / C03_Pending are evaluated on every observed end-of-trial state. Bit-for-bit (no tolerance).",
      ENGINE_NOTE, "5 C03")
claim("C04", "model_checking",
      "trace validation against QMC.tla: energy ownership (lastE, lastRes, calcAtoms, calcRes as configurations), one evaluation per trial, calculator usability probe",
      "Energies are identified with the configuration they are the from-scratch energy of; TLC validates at every event that the reference energy, remembered positions/cell, calculator atoms and cached results are what QMC.tla's Evaluate/Accept/Reject produce, that C04_Own and C04_NoRecompute hold at every yield and end of trial, and that the evaluation counter moves by exactly one per evaluated trial (cache hits on unchanged configurations excepted); a deep-copied calculator is probed on a neighbouring configuration (usable).",
      ENGINE_NOTE + " Calculator styles: caching (harmonic, table), rebuild (pair), internal per-atom state (EMT, LJ).", "5 C04")
claim("C05", "model_checking",
      "trace validation against QMC.tla: labels of every distinct move, particle counter, pending indices, template digest after every grand-canonical trial",
      "TLC validates GrandCanonical traces (atomic and molecular species, several label-bearing moves, composites built with + and *, the same object repeated, default labels incl. 0 and negatives, pre-selected insertions/deletions) against Accept/LabelsAfter/InsSub/DelSub of QMC.tla: label arrays aligned and equal to the specified ones, nexch = previous + particle_delta, template token unchanged.",
      ENGINE_NOTE, "5 C05")
claim("C11", "model_checking",
      "trace validation against QMC.tla: the move call may change positions only of atoms carrying the chosen non-negative label; composite never repeats a label",
      "For every recorded move call TLC folds the per-element outcomes (label picked, veto) through DispSub/Fold of QMC.tla: atoms outside the selected labels keep their position tokens, the chosen label is legal (non-negative, present, not displaced before in a composite displacement, equal to the pre-selection), every entitled atom moved for non-degenerate operations, and the move's result equals 'some element succeeded'.",
      ENGINE_NOTE, "5 C11")
claim("C12", "model_checking",
      "TLC: exhaustive MC_QMC.tla + trace validation against QMC.tla (FixAtoms atoms keep their position tokens through call/accept/reject/fail); numeric layer for FixCom drift, fixed atoms under Hamiltonian / force-bias moves and FixRot",
      "TLC evaluates C12_Fixed on every observed end-of-trial state and the AfterCall semantics (atoms in cons never receive a new position token) on every move call of Canonical, HamiltonianCanonical, Isobaric and GrandCanonical traces.",
      ENGINE_NOTE + " The centre-of-mass, force-bias and FixRot clauses are real-valued: decided by numeric predicates (drift <= 1e-9 A, |L|, dP <= 1e-9 relative), not by TLC.", "5 C12")

claim("C19", "model_checking",
      "TLC exhaustive over index sequences and graphs (AtomsOps.tla) + replay of every case on real ase.Atoms",
      "AtomsOps.tla specifies Delete/Reinsert on sequences and the admitted-component partition of a graph; TLC checks C19_Inverse / C19_DeleteRemoves / C19_Partition for every index sequence (all subsets, all orders) and every graph up to the bound and exports the expected results; each case is executed with del atoms[I] + reinsert_atoms on atoms carrying seven per-atom arrays of different dtypes (bytes and dtype compared) and with search_molecules on a geometric realisation of the graph (per-pair cutoff dict), default arrays cycling through None / constant / distinct negatives; random larger cases use an independent union-find oracle.",
      "Trusted: TLC, ASE's neighbour list for realising a graph geometrically, the ndjson export. Bound: <= 4 atoms (quick) / 5 (thorough) exhaustive, random cases up to 12 atoms.", "5 C19")

claim("C02", "model_checking",
      "TLC exhaustive on an exact lattice of the acceptance rule (Accept.tla) + realisation of every lattice point on real driver objects; float mirror with guard band off the lattice",
      "Accept.tla states u < min(1, A) for the six rules as an integer comparison on a lattice where it is exact (energies, P dV, stress work, mu in units of kT ln2; V'/V and ideal-gas prefactors powers of two; u = 2^-(j+1/2), keeping every point a factor sqrt(2) from the boundary) including exponents far beyond +-709 and compensated extremes for a 2047-atom system; TLC checks the rule's theorems (favourable always accepted, hydrostatic isotension = isobaric, monotone in energy, SetThenTrial) and exports the expected verdict of every point; each point is realised on Canonical / HamiltonianCanonical / Isobaric / Isotension / GrandCanonical objects through their property setters after stale values were installed, with the uniform imposed through the simulation's own generator; any exception is a violation. Random off-lattice inputs (incl. sheared cells, arbitrary stress) are judged by a log-form mirror with a guard band.",
      "Trusted: TLC; the float realisation of lattice inputs (errors ~1e-15 relative against a sqrt(2) margin); scipy's CODATA constants for the thermal wavelength; strain taken as the criteria publishes it.", "5 C02")

claim("C18", "model_checking",
      "TLC on the exact rational lattice of the update functions (Adaptive.tla) + replay of every exported curve point and action history on real AdaptiveForceBias objects",
      "With the committee variance an integer multiple n of the reference, tanh- and exp-updates are the rationals 2/(3^n+1) and 2^-n; Adaptive.tla states range, max at zero, midpoint at the reference, approach to min, monotonicity and history-independence (bounds re-assigned and variance changed between updates) as integer inequalities that TLC checks over every action sequence up to the bound; the curve and every sequence are replayed through update_delta()/step() with committee arrays constructed to give exactly n x reference (both schemes, scalar and per-coordinate), compared at 1e-12; random per-coordinate variances over 12 decades check range/monotonicity off the lattice.",
      "Trusted: TLC, construction of committee arrays with a prescribed variation coefficient. Bound: n <= 18 (tanh) / 30 (exp) because 3^n, 2^n must fit TLC's 32-bit integers; histories up to 3 (quick) / 4 (thorough) actions.", "5 C18")

claim("C09", "model_checking",
      "TLC exhaustive on the slot-by-slot scheduling process (Sched.tla) + set-equality replay of small tables + TLC validation of recorded run/srun/irun traces (Sched_Trace.tla) + exact-probability frequency test",
      "Sched.tla models AddMove (refusal rule) and the emission of forced and free slots; TLC checks that every emitted sequence satisfies the contract (count, due-ness, minimum counts, weight-zero never free) over all small tables. For every small table TLC exports the complete allowed set and the code's emitted set over thousands of draws must equal it (nothing forbidden, nothing lost). Names emitted by real run/srun/irun executions of random larger tables and every add_move outcome (default- and explicit-criteria paths) are judged record by record by TLC. Slot frequencies are compared with the exact probabilities at |z| <= 6.",
      "Trusted: TLC, Json module. 'Independently, proportional to weight' is a distributional clause: decided statistically (6 sigma), not by TLC. Bounds: exhaustive part <= 2 moves (3 thorough), cycles <= 3 (4); traces <= 5 moves, 12 cycles.", "5 C09")

claim("C15", "model_checking",
      "TLC exhaustive over plans (splits x entry points x observer intervals, Driver.tla) + replay of the enumerated plans on Canonical, GrandCanonical and ForceBias against the schedule and the unsplit run",
      "Driver.tla executes a plan (sequence of run/srun/irun calls incl. zero-length ones) step by step; TLC checks for every plan and observer-interval set that the call schedule equals Expected(interval, total), the header is written once before any row, exactly the requested steps are performed and the outcome depends on the total only. The enumerated plans with TLC's expected schedules are executed on real drivers with recording observers, a default logger and a trajectory on in-memory files, and compared with the schedule and byte-for-byte with the single run of the same seed.",
      "Trusted: TLC, in-memory text files. Bound: total <= 4 steps (quick) / 6 (thorough), <= 3 calls per plan (+ at most one rebuild); the quick tier replays every 13th, the thorough tier every 5th enumerated case.", "5 C15")

claim("C16", "fault_enumeration",
      "TLC on the observer/crash process (Files.tla) + TLC crash enumeration over operation logs recorded from the real observers (Files_Trace.tla) + byte-level crash contents through the real readers + real forked processes dying before chosen file operations",
      "Every crash point between two consecutive file operations of every observer call is enumerated, with every prefix of the unflushed buffer as a surviving content: abstractly in Files.tla (Crash enabled in every state, modes 'a'/'w', documents growing and shrinking), on operation logs recorded from Logger / TrajectoryObserver / RestartObserver of grand-canonical runs (TLC applies the file semantics and judges all survivors in every state and the disk after every call), as bytes (torn chunks included) through the log-line check, ase.io.read and read_json, and with real processes on real files killed without flushing.",
      "Trusted: the file-semantics model (bound to CPython by comparing the model's disk with the real file after every run, and by the real-kill layer), ASE's readers. Crash model: the OS persists what was flushed or auto-flushed; no reordering, no torn sectors below the file API.", "5 C16")

claim("C08", "model_checking",
      "TLC on CPython's import machine over statement lists extracted from the working tree (Imports.tla, verdict per first import compared with a fresh interpreter) + TLC enumeration of serialization configurations (Serial.tla over an introspected catalogue) executed in fresh interpreters per first-import choice",
      "Imports.tla executes the package's own top-level statements (re-extracted with ast on every run) for every public module as the first import; a `from X import n` that meets a partially initialised X is the ImportError, and the counterexample is the import chain; model and `python -c 'import m'` must agree in both directions. Serial.tla enumerates class x subset of constructor parameters / documented tunables set to non-default values (regular and falsy/edge variants) x nesting shapes (composites, nested composites, move-table entries, whole simulations); each configuration is round-tripped to_dict -> ase json -> lookup by registered name -> from_dict -> to_dict in a fresh interpreter and compared parameter by parameter and dictionary by dictionary.",
      "Trusted: TLC, the ast extractor (function-local and TYPE_CHECKING imports are dropped), the recipes that say what a non-default value is. The catalogue is re-introspected on every run; a serializable class without a recipe is a machinery error, not a silent gap.", "5 C08")

claim("C07", "fault_enumeration",
      "restart points enumerated from Restart.tla (ensemble x move-table shape x k in 0..n) and replayed from the bytes of the real restart file; TLC checks that Restart is a stuttering step when every future-relevant field is saved",
      "Restart.tla defines the future-relevant fields per ensemble and the taint semantics of a restart (a field the dictionary does not determine is lost and makes every later state diverge); TLC enumerates <ensemble, table shape, n, k>. For every enumerated tuple the real driver runs with its default RestartObserver; for EVERY k the captured bytes of step k are loaded with read_json, rebuilt with <Driver>.from_dict, given a fresh calculator and continued; atoms, cell, momenta, reference energy, move history, labels of every move, particle counter, step counter and generator state must equal the uninterrupted run at every later step.",
      "Trusted: TLC, ase.io.jsonio. Calculators are deterministic functions of the configuration. ForceBias/AdaptiveForceBias offer no from_dict: only that their restart observer writes loadable JSON. n = 4 (quick) / 6 (thorough), 1 / 3 seeds x 2 calculators.", "5 C07")

claim("C06", "model_checking",
      "TLC on the self-composition with an environment perturbing the global generators (Determinism.tla) + TLC validation of A/B/C experiments recorded from all seven drivers (Determinism_Trace.tla) with every global-generator entry point wrapped",
      "Determinism.tla: two simulations consume their own seed-determined streams while the environment may change the global generators at any time; same seed => same state, different seeds => different states, seed 0 ordinary. For every driver x table x seed (0, 1, 42, 2^32-1, 2^32+7, 2^63+5, random) three real runs are recorded (A; B with the same seed after re-seeding and advancing numpy's and Python's global generators; C with seed+1 or seed+2^32) as per-step tokens of positions/cell/numbers/momenta/move history and the log bytes; all module-level entry points of numpy.random and random are wrapped so that any use is an event regardless of state; TLC judges A = B, C != A, no global event, seed honoured, own generator used.",
      "Trusted: TLC; interception at the entry points of numpy.random / random (a C extension reading the global state directly would escape). Bound: 5 steps (quick) / 25 (thorough).", "5 C06")

claim("C20", "model_checking",
      "TLC on the protocol machine (Protocol.tla: Yield/Call/Evaluate/Save/Revert/NotAttempted/Serialize) + replay of every enumerated behaviour on the six Monte Carlo drivers with strict user objects",
      "Protocol.tla fixes the alphabet of calls a driver may make on user objects and their order (evaluate only after a truthy call of the same entry; a falsy result is recorded as not attempted and never evaluated; every accepted change of the atom count / cell is announced exactly once to every distinct move object; serialization calls to_dict/from_dict per component); TLC checks the invariants and enumerates every behaviour (driver x trial sequence with entry, truthy/falsy move result in five spellings, verdict x optional serialize-and-rebuild) with the expected call log. Each behaviour is replayed: the schedule is imposed through the simulation's own generator, verdicts through user criteria, and the user move / criteria (no quansino base class, value-equal twin included) log and refuse every attribute access outside the protocol, __eq__ included.",
      "Trusted: TLC; the strict objects as representatives of 'all conforming user programs'. Notifications that announce no change (empty index lists) are not judged.", "5 C20")

claim("C13", "model_checking",
      "TLC on the exact lattice of the published acceptance function and the rejection loop (FBMC.tla) + lattice replay through the simulation's own generator + magnitude sweep with the real generator + chi-square of the sampled density",
      "On gamma = k ln2, zeta = j/4, u = (2r+1)/32 the Bal-Neyts acceptance function is a ratio of integers; TLC checks that it is a probability, that displacement along the force is favoured and increasingly so, mirror symmetry, that a converged coordinate keeps its zeta, that the configuration advances exactly once and only when all coordinates converged, and that every gamma has positive acceptance mass; the accept table is exported. Real ForceBias objects are stepped with forces giving exactly those gammas (temperature and delta also re-assigned on the live object) and scripted (zeta, u) rounds: converged sets per round, final zeta, gamma and the mass-scaled displacement must match the table. With the real generator and forces from 0 to 1e300 of mixed sign the bound, termination, single position update and finiteness are checked; zeta histograms are compared with the published density (chi-square, mean).",
      "Trusted: TLC; scipy quadrature for bin masses (1/gamma is irrational on the lattice). The density clause is statistical (p >= 1e-9, |z| <= 6); the lattice layer is applicable only when the draw pattern is uniform(-1,1)/random() per round.", "5 C13")

claim("C14", "model_checking",
      "TLC on the dyadic velocity-Verlet lattice (Verlet.tla: exact trajectory, exact reversibility, force-evaluation count) replayed bit for bit + numeric reversibility / order on real potentials + scripted and statistical momentum refresh + engine traces validated against QMC.tla for the kinetic energy",
      "Verlet.tla keeps x, p as integers scaled by 2^Q for the harmonic well with dt = 2^-S, where velocity Verlet is exact; TLC checks integrate-flip-integrate-flip = identity, N+1 force evaluations, exactness of every division, and exports the end point of every case; Verlet.integrate must reproduce each end point bit for bit (IEEE doubles are exact on these dyadics) with and without constraint application. On EMT / Lennard-Jones / quartic systems reversibility (<= 1e-9) and the log-log slope of the total-energy error are measured. The momentum refresh is driven with scripted normals (p = z sqrt(m kT), oddness), with forced rescaling (target temperature, also with fixed atoms) and sampled for its first moments. HamiltonianCanonical engine traces (vetoing check_move included) are validated by TLC: the reference kinetic energy at the move's return is that of the refreshed momenta.",
      "Trusted: TLC; exactness of IEEE arithmetic on dyadic rationals below 2^53. Bounds: S <= 3, N <= 3 (32-bit integers in TLC); the order clause and 'normal with variance m kT' are numeric/statistical (slope in [1.6, 2.6], |z| <= 6).", "5 C14")

claim("C10", "model_checking",
      "TLC over all 512 masks for the discrete mask semantics and as acceptor of recorded operation calls against the contracts of Proposal.tla (numeric predicates computed by the projection); statistical inversion-symmetry tests",
      "Proposal.tla specifies (1) the blend of a raw gradient with the identity under a Boolean mask, checked by TLC for all 512 masks and replayed exactly on the three deformation kinds (also with the mask re-assigned on a live operation), and (2) which predicates each of the ten operation kinds owes (norm / range, rigidity, centre of mass, centroid in cell, sum of parts, scalar times identity, symmetric, positive-definite, unit determinant, masked identity); thousands of real calls over step sizes 1e-3..10, cubic to triclinic cells, groups of 1..5 atoms with unequal (also user-set) masses and random masks are judged by TLC. 'As likely as its inverse' and uniform translation are tested on the distributions of d, rotation vectors (Kabsch) and log F.",
      "This is the property for which the family adds least: the real-valued clauses are decided by the numeric predicates (tolerances 1e-12 relative for norms, 1e-9 for geometry, 1e-10 for det) and the symmetry clause statistically (|z| <= 6); TLC decides the discrete mask semantics and the assignment of obligations to operations.", "5 C10")

claim("C01", "model_checking",
      "TLC: detailed balance of the specified Metropolis kernels against the analytic stationary laws on lattice instances (Ensemble.tla); statistical conformance of real drivers on solvable systems",
      "Ensemble.tla runs three lattice chains with the trial/accept/reject structure of the engine and Accept.tla's rule (canonical ring with site energies; ideal gas on a log-volume lattice with the uniform-in-ln V proposal, which is where the exponent N+1 is forced; grand-canonical ideal gas with Poisson target) and TLC checks pi(s)K(s,t) = pi(t)K(t,s) for every transition in integer form, that a rejection keeps the state and that every move is reversible. The code's kernel equals the specified one factor by factor (C02 acceptance, C03/C05 restoration and bookkeeping, C04 energies, C10 proposal symmetry). End to end, real Canonical / HamiltonianCanonical / Isobaric / Isotension / GrandCanonical runs on harmonic wells, a rigid dipole in a field, ideal gases (also with temperature and chemical potential re-assigned mid-run) are sampled after every step and compared with the exact values (3N/2 kT, coth x - 1/x, (N+1)kT/P and its variance, Poisson mean / variance / histogram, uniform positions and orientations).",
      "'Long simulations reproduce' is a limit over arbitrarily long histories: TLC decides detailed balance of the specification exactly on lattice instances; the end-to-end part is finite-sample agreement at |z| <= 6 (block-averaged errors, one doubled re-run before reporting), resolving biases above about 3% (quick) / 1% (thorough).", "5 C01")


# additions made while strengthening the checks against seeded changes (DESIGN.md section 8.6); appended to the text above
EXTRA = {
    "C01": " The molecular template is tilted against the axes; one grand-canonical history declares an accessible volume and is stopped, rebuilt from its dictionary and continued. A Hamiltonian history is stopped, rebuilt and continued; a composite displacement + exchange proposal is part of the grand-canonical ideal-gas histories. Harmonic particles whose spring is half calculator, half Hookean tether; a Hamiltonian history coarse enough to reject a good part of its trajectories.",
    "C02": " Sequences of four trials on one configured simulation (parameters set once) and runs started after a manual pre-strain of the cell (the first trial is judged against the volume at the start of the run; the uniform is scripted between the two candidate ratios) are judged by the same mirror. Left-handed cells are part of the lattice realisation; real grand-canonical runs (atomic and molecular ideal gas) are judged trial by trial with the particle number really in the box; DefaultCriteria.tla (first match = most specific match in every driver's default-criteria table) is replayed through add_move. Exchange species with user-set masses; real canonical runs with a Hookean restraint (constraint energy is part of the Boltzmann factor). The Hamiltonian clause after trajectories refused by the user's geometric check (atoms that bring momenta of their own).",
    "C03": " MC_QMC.tla is also checked exhaustively (11 invariants over 7 set-ups incl. FixCom and composite exchange) and its complete behaviours are replayed into the real drivers (spec -> code). Runs in two legs with a manual edit of the atoms between them (edit event / UserEdit action), with and without the user resetting the remembered energy. One trial that exchanges and displaces (plain composite, both orders) is part of the scenarios, of MC_QMC.tla and of the replay. MultiContexts.tla (the statement for a family of systems) is replayed on the real MultiContexts with Displacement / Deformation / Exchange / Hamiltonian members. Scenario calculators depend on the species; family gcmix (particles of different species, double deletions, two deleting exchange moves followed by a displacement in one trial). Hamiltonian runs with FixCom and with time steps at which a good part of the trajectories is rejected.",
    "C04": " MC_QMC.tla (exhaustive, with a Restart action: the run continues from its restart dictionary with a fresh calculator) and its replay into the real drivers; a quarter of the recorded runs start from a simulation rebuilt through to_dict / JSON / from_dict with a fresh calculator. Runs in two legs with a manual edit (positions, and cell in the cell-changing ensembles) between them; the user resets the remembered energy. A Hookean restraint in the canonical scenarios (the reported / remembered energy includes it, the calculator's results do not); species-dependent calculators and family gcmix.",
    "C05": " MC_QMC.tla (exhaustive) and its replay; scenario families include an identity swap in both orders inside one trial and runs that empty the system. Pre-selected particles of another size than the template (sizes of pending insertions in the specification's state). Moves that join, or replace an entry of, the move table after exchanges have been accepted stay aligned. Family gccoarse: a displacement move that groups the exchangeable particles in pairs (partial-group deletion, then insertion).",
    "C06": " The same seed is also run in fresh interpreters with other PYTHONHASHSEED values (the other process-wide source of arbitrariness) and must give the same tokens. The seed is also spelled as a numpy integer.",
    "C07": " Tables include default_label 0 and one exchange move shared by a stand-alone and a composite entry; Restart.tla names the transient pre-selections that are not saved. The scalar settings Restart.tla lists as future-relevant are part of the per-step digest; one table declares an accessible volume. A table whose one trial exchanges and then displaces. The restart path itself (both logging modes, fresh or over an older, longer document) is read back after every step and must hold the observer's document.",
    "C08": " Registry.tla (insertion order, last registration wins, first name of a class, typed lookup) is replayed on the real registry. Readers that never built the objects (fresh interpreter: first import + owner sub-package only) rebuild every document by registered name; a time step assigned on the live integrator. Values that are another class's default must survive; the dictionary is a snapshot (editing the rebuilt simulation must not change it). A composite operation nested in a composite operation (Serial.tla).",
    "C11": " A scenario family empties the system so that composite displacement moves are called with no eligible particle (reported count must be zero). The composite type owed to a table entry is derived from its elements (Algebra.tla's Meaning). After a label violation the trace specification keeps the specified labels, so later moves are judged against them. Two deletions followed by a displacement in one trial with pre-selected targets; one displacement move object under two table entries.",
    "C12": " Each numeric run is followed by four runs of the same object started after the user shifted the system by hand (cold rounds). FixRot on nearly linear molecules in any orientation and one constraint object re-used after masses / geometry changed. A Hamiltonian move driven by hand after a user edit, with refused trajectories. FixCom on a cluster far from the origin moved in small steps.",
    "C13": " Every fifth instance uses fictitious sampling masses given to the driver through update_masses (per atom or per coordinate). A step after the calculator was swapped without moving an atom. Per-coordinate mass-scaling powers. The adaptive driver: gamma and displacement of a step belong to that step's delta.",
    "C14": " The reversibility / order layer includes a rotating rigid bond (FixBondLength). A trajectory started after the atoms were moved by hand since the last evaluation. FixRot on clusters of unequal masses. Hookean restraints in the order layer; the proposal after refused trajectories is the trajectory from the start configuration with momenta drawn in this trial, whose kinetic energy is the remembered one.",
    "C15": " Plans may contain a rebuild (to_dict -> from_dict between two calls) and drivers without a log file; a counter of requested steps makes 'exactly the requested number' an invariant; liveness (every plan completes) is checked under weak fairness in the thorough tier. A per-case watchdog turns a call that does not return into a violation; the default restart observer is attached next to logger and trajectory (one rewrite per scheduled call). irun generators created before they are iterated. DriverInd.tla: the same claims for unbounded call lengths / calls / rebuilds / intervals by an inductive invariant discharged with Apalache, tied to Driver.tla by a refinement check in TLC. One-shot (negative interval) default logger.",
    "C16": " Files.tla also has a failing logger call (nothing written) and pre-existing file content in 'a' mode, both bound by recorded histories; LoggerFields.tla (field management: insertion order, replace in place, remove by pattern, the shipped stress columns under every mask, the convenience sets add_mc/md/opt_fields with their shared names) and Observers.tla (file ownership) are replayed on the real classes. User checkpoints through the restart observer after the moves of a step. A draining run (empty-box frames), resume from the step-0 restart file into a new log, observer calls that write nothing still count. HeaderFormat.tla (derivation of header cells from data-cell formats) is replayed on the real function, str.format and Logger.add_field. A Logger given another file writes there and only there; rebuilding onto the earlier run's restart path does not change the file before the first observer call. User handles with earlier content under driver mode 'w' keep their bytes.",
    "C18": " The curve is also replayed with reference variances 1 and 2 (coefficients above 1, committees of c^2+1 members). Alternating histories (committee data appear, disappear, re-appear between updates). Committee members that disagree in sign, identical members and realistic energy offsets. Delta read after step() on atoms of different masses. The reference variance is re-assignable (SetRef action): histories that retune it between updates.",
    "C19": " The caller's default array is handed over as is after an earlier search; delete + re-insert is also exercised the way the library composes it (a rejected grand-canonical trial that deletes one particle and inserts another, both orders). Negative indices. One global cutoff distance (float, int) over periodic boxes.",
    "C20": " The cell-changing ensembles also hold a user-defined constant-volume cell move W; the strict user objects are falsy and log truth-value tests. A delete-and-insert trial (zero particle balance) must be announced; the same object is serialized twice at the end (every user component is asked each time). What a move is told by a notification stays its own; an entry replaced after its announcement is the one executed and judged.",
    "C09": " SchedInd.tla: the contract for unbounded trials per step and minimum counts by an inductive invariant discharged with Apalache, tied to Sched.tla by a refinement check in TLC. DefaultTable.tla (the table each driver builds from its default moves: order, names, exact weights 1/(N+1) and N/(N+1) in the constant-pressure drivers, trials per step) is built on the real drivers for every case. Intervals that do not divide each other (small tables over intervals 1..3, steps 0..3; random tables without an every-step move).",
    "C10": " Long generator streams through one operation object (bounds for all generator states); re-used operation objects (a returned displacement is a value; contracts hold later in a sequence). The default mask belongs to its operation; composites of per-atom parts and of deformations are sums. A deformation and its inverse draw by draw (mirrored generator) up to maximum strain 3.",
    "C17": " Operands of + and * must be left unchanged. The reflected spelling n * x, where offered.",
}

NOT_YET = "check not built yet in this round (planned in DESIGN.md section 5); will be claimed once its spec and conformance harness exist"


def main():
    try:
        hooks_commits = json.loads((VERIF / "hooks.json").read_text())["source_commits"]
    except Exception:  # noqa: BLE001
        hooks_commits = []
    checks = []
    for pid in ALL:
        if pid not in CLAIMS:
            continue
        cat, tech, text, note, ref = CLAIMS[pid]
        text = text + EXTRA.get(pid, "")
        checks.append({
            "property_id": pid,
            "quick_cmd": f"./check {pid} quick",
            "thorough_cmd": f"./check {pid} thorough",
            "evidence_file": f"/verif/evidence/{pid}.json",
            "replay_cmd_template": f"./check {pid} --replay {{path}}",
            "engine": "tlc+harness",
            "level_claimed": {"category": cat, "text": text, "design_ref": f"DESIGN.md section {ref}"},
            "level_note": note,
            "technique": tech,
        })
    manifest = {
        "version": 1,
        "setup_cmd": "./setup.sh",
        "hooks": {
            "guard": "QUANSINO_VERIF",
            "enable": "no build step: /venv imports /repo/src (editable install); ./check exports QUANSINO_VERIF=1 and PYTHONPATH=/repo/src",
            "baseline_off_cmd": "cd /repo && env -u QUANSINO_VERIF /venv/bin/python -m pytest -ra -q -p no:cacheprovider --timeout=900 --continue-on-collection-errors",
            "source_commits": hooks_commits,
            "add_only": True,
        },
        "engines": [
            {"name": "tlc+harness", "path": "/verif/check", "serves_properties": sorted(CLAIMS),
             "kind_free_text": "explicit TLA+ specifications in /verif/spec checked by TLC 1.8; conformance harness in /verif/harness (Python, /venv) replays TLC-generated cases/behaviours into quansino and validates traces recorded from quansino against the spec"},
        ],
        "checks": checks,
        "not_applicable": [{"property_id": p, "reason": NOT_YET} for p in ALL if p not in CLAIMS],
        "notes": "Model-based verification with explicit TLA+ specifications (see DESIGN.md). Genuine defects of the pinned tree are either repaired by 'fix:' commits in /repo or listed in /verif/known_findings.json.",
    }
    (VERIF / "MANIFEST.json").write_text(json.dumps(manifest, indent=1) + "\n")
    # validate
    r = subprocess.run(["python3-vt", "-c", "import json,jsonschema,sys; jsonschema.validate(json.load(open(sys.argv[1])), json.load(open('/root/.vp/MANIFEST.schema.json')))", str(VERIF / "MANIFEST.json")], capture_output=True, text=True)
    if r.returncode != 0:
        print(r.stderr[-2000:])
        raise SystemExit("MANIFEST.json does not validate")
    print("MANIFEST.json written:", len(checks), "checks,", len(manifest["not_applicable"]), "not applicable")


if __name__ == "__main__":
    main()
