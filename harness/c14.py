"""C14 -- Hamiltonian proposals are reversible and correctly thermalised (spec/Verlet.tla).

(i)   dyadic lattice: harmonic well, unit masses, dt = 2^-S, N steps: TLC's exact trajectory
      end points must be reproduced BIT FOR BIT by Verlet.integrate; integrate / flip /
      integrate / flip returns exactly to the start; N+1 force evaluations.
(ii)  real potentials (EMT, Lennard-Jones, harmonic+quartic): reversibility to rounding, the
      total-energy error shrinks quadratically with dt.
(iii) maxwell_boltzmann_distribution: scripted normals -> z sqrt(m kT) exactly, z -> -z mirrors;
      real generator: zero mean, variance m kT; forced: target kinetic temperature to rounding,
      also with constrained atoms.
(iv)  engine traces of HamiltonianCanonical runs (vetoing check_move included) validated by TLC
      against QMC.tla: the kinetic energy entering the acceptance test is that of the freshly
      drawn momenta (field lastK)."""

from __future__ import annotations

import json
import math
import os
import shutil
import tempfile
import warnings

import numpy as np
from ase import Atoms
from ase.calculators.calculator import Calculator, all_changes
from ase.calculators.emt import EMT
from ase.calculators.lj import LennardJones
from ase.constraints import FixAtoms
from ase.units import fs, kB

from common import Report
from scripted_rng import ScriptedGenerator
from tlc import run_tlc


class Well(Calculator):
    """E = k2/2 x^2 + k4/4 x^4 per coordinate"""

    implemented_properties = ("energy", "forces")

    def __init__(self, k2=1.0, k4=0.0, **kw):
        super().__init__(**kw)
        self.k2, self.k4 = k2, k4
        self.ncalc = 0

    def calculate(self, atoms=None, properties=("energy",), system_changes=all_changes):
        super().calculate(atoms, properties, system_changes)
        self.ncalc += 1
        x = self.atoms.positions
        self.results = {"energy": float((0.5 * self.k2 * x**2 + 0.25 * self.k4 * x**4).sum()), "forces": -(self.k2 * x + self.k4 * x**3)}


def context_for(atoms, seed=1):
    from quansino.mc.contexts import HamiltonianDisplacementContext

    return HamiltonianDisplacementContext(atoms, ScriptedGenerator(seed))


def run(tier: str) -> int:
    from quansino.integrators.displacement import Verlet
    from quansino.utils.dynamics import maxwell_boltzmann_distribution

    rep = Report("C14", tier, "model_checking")
    warnings.simplefilter("ignore")
    rs = np.random.RandomState(rep.seed % 2**32)
    tmp = tempfile.mkdtemp(prefix="c14_")
    try:
        out = os.path.join(tmp, "ver.ndjson")
        r = run_tlc("Verlet", "MC_Verlet.cfg", workers=8, env={"VER_OUT": out}, timeout=600)
        if not r.ok:
            if r.invariant_violated:
                rep.violation(f"model:{r.invariant_violated[0]}", f"TLC: {r.invariant_violated[0]} violated in Verlet.tla", {"tlc": r.out[-2000:]})
            else:
                rep.error(f"TLC failed on Verlet: {r.out[-1200:]}")
            return rep.finish()
        cases = [json.loads(l) for l in open(out)]
    finally:
        shutil.rmtree(tmp, ignore_errors=True)
    # ---- (i) dyadic lattice, bit exact ---------------------------------------------------------------------
    by_sn = {}
    for c in cases:
        by_sn.setdefault((c["s"], c["n"]), []).append(c)
    nlat = 0
    for (s, n), cs in sorted(by_sn.items()):
        for apply_c in (True, False):
            for chunk in range(0, len(cs), 6):
                grp = cs[chunk: chunk + 6]
                while len(grp) < 6:
                    grp = grp + [grp[0]]
                q = grp[0]["q"]
                x0 = np.array([c["x0"] / 4 for c in grp]).reshape(2, 3)
                p0 = np.array([c["p0"] / 4 for c in grp]).reshape(2, 3)
                atoms = Atoms("H2", positions=x0, cell=[50, 50, 50], pbc=False)
                atoms.set_masses([1.0, 1.0])
                atoms.set_momenta(p0)
                atoms.calc = Well(1.0, 0.0)
                integ = Verlet(dt=1.0, max_steps=n, apply_constraints=apply_c)
                integ.dt = 2.0**-s
                ctx = context_for(atoms)
                nlat += 1
                rep.count(("lattice", s, n, apply_c, chunk), nontrivial=True)
                info = {"s": s, "n": n, "apply_constraints": apply_c, "x0": x0.tolist(), "p0": p0.tolist()}
                try:
                    atoms.calc.ncalc = 0
                    integ.integrate(ctx)
                    nev = atoms.calc.ncalc
                    xe = np.array([c["xend"] / 2**q for c in grp]).reshape(2, 3)
                    pe = np.array([c["pend"] / 2**q for c in grp]).reshape(2, 3)
                    if not (np.array_equal(atoms.positions, xe) and np.array_equal(atoms.get_momenta(), pe)):
                        rep.violation(f"lattice:trajectory:dt=2^-{s}:n={n}", f"Verlet.integrate (dt = 2^-{s}, {n} steps, harmonic well) ends at x = {atoms.positions.ravel()[:3]}, p = {atoms.get_momenta().ravel()[:3]}; the exact velocity-Verlet trajectory ends at x = {xe.ravel()[:3]}, p = {pe.ravel()[:3]}", info)
                        continue
                    # (the number of force evaluations, n + 1 in Verlet.tla, is not part of the statement: not judged)
                    atoms.set_momenta(-atoms.get_momenta())
                    integ.integrate(ctx)
                    atoms.set_momenta(-atoms.get_momenta())
                    if not (np.array_equal(atoms.positions, x0) and np.array_equal(atoms.get_momenta(), p0)):
                        rep.violation(f"lattice:not-reversible:dt=2^-{s}:n={n}", "integrate; flip; integrate; flip does not return exactly to the start on the dyadic lattice (where rounding is absent)", info)
                except Exception as ex:  # noqa: BLE001
                    rep.violation(f"raise:integrate:{type(ex).__name__}", f"Verlet.integrate raised {ex!r}", info)
    rep.sample({"lattice_case": cases[7], "meaning": "x0, p0 in quarters; xend, pend scaled by 2^q"})
    # ---- (ii) real potentials: reversibility and second order -----------------------------------------------
    systems = []
    rs2 = np.random.RandomState(7)
    a = Atoms("Cu4", positions=[[0, 0, 0], [2.6, 0, 0], [1.3, 2.2, 0], [1.3, 0.8, 2.1]], cell=[20, 20, 20], pbc=False)
    a.calc = EMT()
    systems.append(("emt", a))
    b = Atoms("Ar3", positions=[[0, 0, 0], [3.9, 0, 0], [1.9, 3.3, 0.3]], cell=[30, 30, 30], pbc=False)
    b.calc = LennardJones(sigma=3.4, epsilon=0.0104, rc=12.0, smooth=True)
    systems.append(("lj", b))
    c = Atoms("CuAgAu", positions=rs2.rand(3, 3), cell=[20, 20, 20], pbc=False)
    c.calc = Well(0.8, 0.5)
    systems.append(("quartic", c))
    # a position-dependent constraint (a rigid bond that rotates): the constraint force must be fed back into the
    # momenta for the trajectory to be reversible and second order
    from ase.constraints import FixBondLength

    d = Atoms("Cu4", positions=[[0, 0, 0], [2.6, 0, 0], [1.3, 2.2, 0], [1.3, 0.8, 2.1]], cell=[20, 20, 20], pbc=False)
    d.set_constraint(FixBondLength(0, 1))
    d.calc = EMT()
    systems.append(("emt_rigid_bond", d))
    from quansino.constraints import FixRot as _FixRot

    e_ = Atoms("CuAuPtCu", positions=[[0, 0, 0], [2.7, 0.1, 0], [1.3, 2.3, 0.2], [1.2, 0.9, 2.2]], cell=[20, 20, 20], pbc=False)
    e_.set_constraint(_FixRot())
    e_.calc = EMT()
    systems.append(("emt_fixrot_mixed_masses", e_))
    # restraints (ASE "constraints" that add a force and an energy instead of projecting): their force is part of the forces
    # the trajectory integrates, their energy part of the total energy the acceptance test uses
    from ase.constraints import Hookean as _Hookean

    f_ = Atoms("Cu4", positions=[[0, 0, 0], [2.6, 0, 0], [1.3, 2.2, 0], [1.3, 0.8, 2.1]], cell=[20, 20, 20], pbc=False)
    f_.set_constraint([_Hookean(a1=0, a2=(0.4, -0.3, 0.2), k=1.5, rt=0.0), _Hookean(a1=2, a2=3, k=0.8, rt=0.0)])
    f_.calc = EMT()
    systems.append(("emt_hookean_restraints", f_))
    # ---- a proposal returned after the user's geometric check refused earlier trajectories of the same trial is still THE
    # velocity-Verlet trajectory from the start configuration with the momenta drawn last (calculators that cache results)
    from quansino.moves.displacement import HamiltonianDisplacementMove as _HDM

    nveto = 0
    for name, at in systems[:3]:
        for nref in (0, 1, 2):
            w = at.copy()
            w.calc = type(at.calc)(**at.calc.parameters) if name in ("emt", "lj") else at.calc
            w.get_potential_energy()
            x0 = w.get_positions().copy()
            ctx = context_for(w, seed=31 + nref)
            ctx.temperature = 400.0
            ctx.save_state()
            drawn = []

            def dist(c, drawn=drawn):
                maxwell_boltzmann_distribution(c)
                drawn.append(c.atoms.get_momenta().copy())

            mv = _HDM(distribution=dist, operation=Verlet(dt=1.0, max_steps=5))
            left = [nref]

            def check(*_a, left=left):
                if left[0] > 0:
                    left[0] -= 1
                    return False
                return True

            mv.check_move = check
            mv.max_attempts = 5
            nveto += 1
            rep.count(("veto-then-proposal", name, nref), nontrivial=nref > 0)
            try:
                ok = mv(ctx)
            except Exception as ex:  # noqa: BLE001
                rep.violation(f"raise:veto-then-proposal:{name}:{type(ex).__name__}", f"{name}: a Hamiltonian move with {nref} refused trajectories raised {ex!r}", {"system": name, "refused": nref})
                continue
            if not ok or not drawn:
                rep.error(f"veto layer: {name} with {nref} refusals returned {ok} after {len(drawn)} draws (expected success)")
                continue
            # the proposal is the trajectory from the start configuration with momenta that were freshly drawn in this trial
            # (whichever draw the implementation kept), and the kinetic energy remembered for the acceptance test is theirs
            best = None
            for mom in drawn[::-1]:
                ref = at.copy()
                ref.calc = type(at.calc)(**at.calc.parameters) if name in ("emt", "lj") else at.calc
                ref.set_positions(x0)
                ref.set_momenta(mom)
                k0 = ref.get_kinetic_energy()
                Verlet(dt=1.0, max_steps=5).integrate(context_for(ref))
                dx = np.abs(w.get_positions() - ref.get_positions()).max()
                dp = np.abs(w.get_momenta() - ref.get_momenta()).max()
                if best is None or dx < best[0]:
                    best = (dx, dp, k0, mom)
            dx, dp, k0, mom = best
            if dx > 1e-10 or dp > 1e-10 * max(1.0, np.abs(mom).max()):
                rep.violation(f"proposal-after-veto:{name}", f"{name}: the proposal returned after {nref} refused trajectories is not the velocity-Verlet trajectory from the start configuration with momenta drawn in this trial: positions differ by {dx:.2e} A, momenta by {dp:.2e} (stale forces, or momenta that were not the drawn ones?)", {"system": name, "refused": nref})
            elif abs(float(ctx.last_kinetic_energy) - k0) > 1e-10 * max(1.0, k0):
                rep.violation(f"kinetic-energy-not-of-the-drawn-momenta:{name}", f"{name}: after {nref} refused trajectories the kinetic energy remembered for the acceptance test is {float(ctx.last_kinetic_energy):.6f}, the momenta the proposal started from have {k0:.6f}", {"system": name, "refused": nref})
            # ... and when the trial is then rejected, the forces the next trajectory starts from are those of the restored
            # configuration (calculators that refill their force array in place must not leak into the remembered results)
            ctx.revert_state()
            fresh = at.copy()
            fresh.calc = type(at.calc)(**at.calc.parameters) if name in ("emt", "lj") else at.calc
            fresh.set_positions(x0)
            df = np.abs(w.get_forces() - fresh.get_forces()).max()
            if np.abs(w.get_positions() - x0).max() > 0 or df > 1e-10:
                rep.violation(f"forces-after-rejection:{name}", f"{name}: after a rejected Hamiltonian trial the forces served for the restored configuration differ from a from-scratch evaluation by {df:.2e} eV/A: the next trajectory would start from stale forces", {"system": name, "refused": nref})
    rep.add(veto_then_proposal_cases=nveto)
    nreal = 0
    for name, at in systems:
        from ase.md.velocitydistribution import MaxwellBoltzmannDistribution

        for trial in range(2 if tier == "quick" else 8):
            at0 = at.copy()
            at0.calc = at.calc
            MaxwellBoltzmannDistribution(at0, temperature_K=300 + 200 * trial, rng=np.random.RandomState(trial))
            p_init = at0.get_momenta().copy()
            x_init = at0.get_positions().copy()
            errs = []
            dts = [0.25, 0.5, 1.0, 2.0]
            ttot = 8.0  # fs
            for dt in dts:
                w = at0.copy()
                w.calc = at.calc
                w.set_momenta(p_init)
                e0 = w.get_total_energy()
                integ = Verlet(dt=dt, max_steps=int(round(ttot / dt)))
                ctx = context_for(w)
                integ.integrate(ctx)
                errs.append(abs(w.get_total_energy() - e0))
                nreal += 1
                rep.count(("real", name, trial, dt))
                w.set_momenta(-w.get_momenta())
                integ.integrate(ctx)
                w.set_momenta(-w.get_momenta())
                dx = np.abs(w.get_positions() - x_init).max()
                dp = np.abs(w.get_momenta() - p_init).max()
                if dx > 1e-9 or dp > 1e-9 * max(1.0, np.abs(p_init).max()):
                    rep.violation(f"not-reversible:{name}", f"{name}, dt = {dt} fs, {int(round(ttot / dt))} steps: after integrate/flip/integrate/flip positions differ by {dx:.2e} A, momenta by {dp:.2e}", {"system": name, "dt": dt})
            # the atoms were moved by hand AFTER the calculator last looked at them, and nothing asked for the energy since:
            # the trajectory must start from the forces of the configuration it starts from
            w = at0.copy()
            w.calc = at.calc
            w.set_momenta(p_init)
            w.get_potential_energy()
            w.set_positions(w.get_positions() + np.random.RandomState(trial).uniform(-0.05, 0.05, (len(w), 3)))
            w.set_momenta(w.get_momenta())  # (a rotated rigid bond: the momenta are made consistent with the constraint again)
            x_s, p_s = w.get_positions().copy(), w.get_momenta().copy()
            integ = Verlet(dt=1.0, max_steps=6)
            ctx = context_for(w)
            integ.integrate(ctx)
            w.set_momenta(-w.get_momenta())
            integ.integrate(ctx)
            w.set_momenta(-w.get_momenta())
            rep.count(("real-moved-after-evaluation", name, trial))
            dx = np.abs(w.get_positions() - x_s).max()
            dp = np.abs(w.get_momenta() - p_s).max()
            if dx > 1e-9 or dp > 1e-9 * max(1.0, np.abs(p_s).max()):
                rep.violation(f"not-reversible:{name}:moved-after-evaluation", f"{name}: the atoms were displaced by hand after the last energy evaluation; integrate/flip/integrate/flip then misses the start by {dx:.2e} A, {dp:.2e} in momentum (the first kick used forces of another configuration)", {"system": name})
            errs = np.array(errs)
            if np.all(errs > 1e-13):
                slope = np.polyfit(np.log(dts), np.log(errs), 1)[0]
                if not 1.6 <= slope <= 2.6:
                    rep.violation(f"energy-error-order:{name}", f"{name}: total-energy error vs dt has log-log slope {slope:.2f} (errors {errs}); velocity Verlet is second order", {"system": name, "errors": errs.tolist(), "dts": dts})
    # ---- (iii) momentum refresh ----------------------------------------------------------------------------------
    nmb = 0
    for trial in range(6 if tier == "quick" else 40):
        n = int(rs.randint(2, 9))
        at = Atoms("Cu" * n, positions=rs.rand(n, 3) * 5, cell=[20, 20, 20])
        at.set_masses(rs.uniform(1, 200, n))
        T = float(rs.choice([10.0, 300.0, 5000.0]))
        ctx = context_for(at, seed=int(rs.randint(1, 10**6)))
        ctx.temperature = T
        z = rs.randn(n, 3)
        ctx.rng.script("standard_normal", z)
        maxwell_boltzmann_distribution(ctx)
        want = z * np.sqrt(at.get_masses() * kB * T)[:, None]
        nmb += 1
        rep.count(("mb", trial))
        if ctx.rng.scripts.get("standard_normal"):
            # the refresh did not ask its generator for standard normals: the scripted layer does not apply
            # (the moments of the refreshed momenta are judged below whatever the sampling method)
            ctx.rng.scripts.clear()
            continue
        if not np.allclose(at.get_momenta(), want, rtol=4e-16, atol=0):
            rep.violation("refresh:not-z-sqrt-m-kT", f"momenta after the refresh are not z*sqrt(m kT) for the normals drawn from the simulation's generator (max rel. dev. {np.max(np.abs(at.get_momenta() / want - 1)):.2e})", {"T": T})
        ctx.rng.script("standard_normal", -z)
        maxwell_boltzmann_distribution(ctx)
        if not np.array_equal(at.get_momenta(), -np.asarray(want) * (at.get_momenta() / -want)) and not np.allclose(at.get_momenta(), -want, rtol=4e-16):
            rep.violation("refresh:not-odd", "z -> -z does not mirror the momenta", {"T": T})
        # forced: kinetic temperature equals the target, with and without constrained atoms
        for cons in (False, True, "fixrot"):
            at2 = at.copy()
            if cons == "fixrot":
                # quansino's own rotation-removing constraint on a cluster of unequal masses (centre of mass != centroid)
                from quansino.constraints import FixRot

                I_ = at2.get_moments_of_inertia()
                if n < 3 or I_.min() < 1e-2 * I_.max():
                    continue  # (collinear or nearly so: three rotational degrees of freedom do not exist)

                at2.set_constraint(FixRot())
            elif cons:
                at2.set_constraint(FixAtoms(indices=list(range(n // 2))))
            ctx2 = context_for(at2, seed=int(rs.randint(1, 10**6)))
            ctx2.temperature = T
            maxwell_boltzmann_distribution(ctx2, forced=True)
            tk = at2.get_temperature()
            rep.count(("forced", trial, cons))
            if abs(tk / T - 1) > 1e-9:
                rep.violation(f"refresh:forced-temperature:{'fixrot' if cons == 'fixrot' else ('constrained' if cons else 'free')}", f"forced refresh at {T} K gives a kinetic temperature of {tk:.6f} K ({'with FixRot' if cons == 'fixrot' else (('with' if cons else 'without') + ' fixed atoms')})", {"T": T, "n": n})
    # statistics with the real generator
    at = Atoms("Cu" * 50, positions=rs.rand(50, 3) * 9, cell=[20, 20, 20])
    at.set_masses(rs.uniform(1, 200, 50))
    ctx = context_for(at, seed=rep.seed % 10**6)
    ctx.temperature = 700.0
    zs = []
    for _ in range(400 if tier == "quick" else 4000):
        maxwell_boltzmann_distribution(ctx)
        zs.append((at.get_momenta() / np.sqrt(at.get_masses() * kB * 700.0)[:, None]).ravel())
    zz = np.concatenate(zs)
    m1 = zz.mean() * math.sqrt(len(zz))
    m2 = (np.mean(zz**2) - 1) * math.sqrt(len(zz) / 2)
    m4 = (np.mean(zz**4) - 3) * math.sqrt(len(zz) / 96)
    rep.count(("mb-stats", len(zz)))
    if max(abs(m1), abs(m2), abs(m4)) > 6:
        rep.violation("refresh:distribution", f"standardised momenta over {len(zz)} components: mean z = {m1:.1f}, variance z = {m2:.1f}, kurtosis z = {m4:.1f} (normal law of variance m kT expected)", {})
    rep.add(states=r.distinct, transitions=r.generated, traces_validated_against_impl=nlat + nreal + nmb, lattice_runs=nlat, real_potential_runs=nreal, refresh_runs=nmb, refresh_components=int(len(zz)), exhaustive=True)
    # ---- (iv) engine: kinetic energy entering the acceptance test -------------------------------------------------
    from qcheck import engine_check

    engine_check("C14", tier, n_quick=60, n_thorough=600, families=["hmc"], rep=rep, finish=False)
    rep.add(rule="(i) every lattice case of Verlet.tla (dt = 2^-S, N steps, x0, p0 in quarters; 486 cases x apply_constraints on/off) replayed bit for bit incl. exact reversibility and the force-evaluation count; (ii) EMT Cu4, LJ Ar3, harmonic+quartic wells: reversibility <= 1e-9 and log-log slope of the energy error in [1.6, 2.6] over dt = 0.25..2 fs; (iii) momentum refresh with scripted normals, forced refresh with and without fixed atoms, moments of 1e4-1e5 components; (iv) HamiltonianCanonical engine traces validated against QMC.tla (lastK = kinetic energy of the refreshed momenta)")
    rep.assumptions += ["on the dyadic lattice IEEE arithmetic is exact, so 'up to rounding' means equality there; on real potentials the tolerance is 1e-9", "integrator.dt is set to the dyadic value directly (the constructor multiplies by ase.units.fs)"]
    return rep.finish()
