"""Entry point:  main.py <property id> <quick|thorough>   |  main.py <id> --replay <file>"""

from __future__ import annotations

import importlib
import os
import sys
import traceback

sys.path.insert(0, os.path.dirname(os.path.abspath(__file__)))


def main(argv):
    if len(argv) < 2:
        print(__doc__)
        return 2
    prop = argv[0].upper()
    if argv[1] == "--replay":
        import json

        d = json.load(open(argv[2]))
        print(json.dumps(d, indent=1)[:20000])
        mod = importlib.import_module(prop.lower())
        if hasattr(mod, "replay"):
            return mod.replay(d)
        print("re-run the check to reproduce:  ./check", prop, d.get("tier", "quick"), " (VERIF_SEED=%s)" % d.get("seed"))
        return 0
    tier = argv[1] if argv[1] in ("quick", "thorough") else os.environ.get("VERIF_TIER", "quick")
    # a check that does not finish is a machinery failure, not a silent hang: hard budget for the whole check
    import signal
    import threading

    budget = int(os.environ.get("VERIF_BUDGET_S", 2700 if tier == "quick" else 4 * 3600))

    def _expired():
        print(f"MACHINERY-ERROR property={prop}: the check did not finish within its budget of {budget} s", flush=True)
        os.killpg(os.getpgid(0), signal.SIGKILL) if os.environ.get("VERIF_KILL_GROUP") else os._exit(2)

    _t = threading.Timer(budget, _expired)
    _t.daemon = True
    _t.start()
    try:
        # the import order the test-suite uses (conftest imports quansino.mc first);
        # other first-import orders are the subject of C08 and run in subprocesses
        import quansino.mc  # noqa: F401
        import quansino.moves  # noqa: F401
        import quansino.operations  # noqa: F401
        import quansino.integrators  # noqa: F401
        import quansino.io  # noqa: F401
        import quansino.utils  # noqa: F401

        mod = importlib.import_module(prop.lower())
        return mod.run(tier)
    except Exception:  # machinery failure, never a verdict
        traceback.print_exc()
        return 2


if __name__ == "__main__":
    sys.exit(main(sys.argv[1:]))
