"""C15 -- observers fire on schedule; splitting a run does not change it (spec/Driver.tla).
Every plan (split into consecutive run/srun/irun calls, zero-length calls included) x observer
set enumerated by TLC is replayed on real drivers and compared with TLC's expected call
schedule and with the single unsplit run of the same seed."""

from __future__ import annotations

import io
import json
import os
import shutil
import tempfile
import warnings

import numpy as np
from ase import Atoms
from ase.constraints import FixCom

from calcs import Harmonic
from common import Hang, Report, watchdog
from tlc import run_tlc


def build(kind, seed, log_interval, with_log=True, files=None, data=None):
    from quansino.io.core import Observer
    from quansino.mc.canonical import Canonical
    from quansino.mc.fbmc import ForceBias
    from quansino.mc.gcmc import GrandCanonical
    from quansino.moves.displacement import DisplacementMove
    from quansino.moves.exchange import ExchangeMove
    from quansino.operations.displacement import Ball

    rs = np.random.RandomState(5)
    atoms = Atoms("Cu4", positions=rs.rand(4, 3) * 3 + 2, cell=[8, 8, 8], pbc=True)
    atoms.calc = Harmonic(k=0.3, centers=atoms.positions + 0.2, eps=0.02)
    files = files or {"log": io.StringIO(), "traj": io.StringIO(), "rst": CountingFile()}
    kw = dict(seed=seed, logfile=files["log"] if with_log else None, trajectory=files["traj"], restart_file=files["rst"], logging_interval=log_interval)
    if data is not None:
        # the restart path: the same files are handed to the rebuilt simulation, a calculator is attached again
        cls = {"canonical": Canonical, "gc": GrandCanonical, "fbmc": ForceBias}[kind]
        kw.pop("seed")
        mc = cls.from_dict(data, **kw)
        mc.atoms.calc = Harmonic(k=0.3, centers=atoms.positions + 0.2, eps=0.02)
        return mc, files
    if kind == "canonical":
        mc = Canonical(atoms, temperature=800.0, max_cycles=2, **kw)
        mc.add_move(DisplacementMove(np.arange(4), Ball(0.3)))
    elif kind == "gc":
        mc = GrandCanonical(atoms, exchange_atoms=Atoms("Cu", positions=[[0, 0, 0]]), temperature=800.0, chemical_potential=0.1, number_of_exchange_particles=4, max_cycles=2, **kw)
        mc.add_move(ExchangeMove(np.arange(4)), name="exch")
        mc.add_move(DisplacementMove(np.arange(4), Ball(0.3)), name="disp")
    else:
        mc = ForceBias(atoms, delta=0.1, temperature=800.0, **kw)
    return mc, files


class Rec:
    pass


class CountingFile(io.StringIO):
    """in-memory restart file: counts the rewrites (one truncate per restart-observer call)"""

    def __init__(self):
        super().__init__()
        self.rewrites = 0

    def truncate(self, *a):
        self.rewrites += 1
        return super().truncate(*a)


def attach(mc, intervals, logs=None):
    from quansino.io.core import Observer

    logs = logs if logs is not None else {}

    for iv in intervals:
        log = logs.get(iv, [])

        class R(Observer):
            def __init__(self, interval, log):
                super().__init__(interval)
                self._log = log

            __slots__ = ("_log",)

            def __call__(self):
                self._log.append(int(mc.step_count))

            def attach_simulation(self, *a, **k):
                pass

            def close(self):
                pass

        mc.file_manager.attach_observer(f"rec{iv}", R(iv, log))
        logs[iv] = log
    return logs


def execute(mc, plan, is_mc, rebuild=None, lazy=False):
    """lazy: consecutive irun calls are all CREATED first (itertools.chain(sim.irun(a), sim.irun(b)), a list of pieces drained
    in order) and then iterated one after the other -- each generator starts working when it is first advanced"""
    i = 0
    while i < len(plan):
        call = plan[i]
        n, entry = call["n"], call["entry"]
        if entry == "rebuild":
            mc = rebuild(mc)
        elif entry == "run" or (entry == "srun" and not is_mc):
            mc.run(n)
        elif entry == "srun":
            for _ in mc.srun(n):
                pass
        else:
            j = i
            gens = []
            while j < len(plan) and plan[j]["entry"] == "irun" and (lazy or j == i):
                gens.append(mc.irun(plan[j]["n"]))
                j += 1
            for gen in gens:
                for st in gen:
                    if is_mc:
                        for _ in st:
                            pass
            i = j - 1
        i += 1
    return mc


def run(tier: str) -> int:
    rep = Report("C15", tier, "model_checking")
    warnings.simplefilter("ignore")
    tmp = tempfile.mkdtemp(prefix="c15_")
    try:
        out = os.path.join(tmp, "drv.ndjson")
        env = {"DRV_OUT": out}
        if tier == "thorough":
            env["DRV_N"] = "6"
        r = run_tlc("Driver", "MC_Driver.cfg", workers=16, env=env, timeout=3000)
        if not r.ok:
            if r.invariant_violated:
                rep.violation(f"model:{r.invariant_violated[0]}", f"TLC: {r.invariant_violated[0]} violated in Driver.tla", {"tlc": r.out[-2000:]})
            else:
                rep.error(f"TLC failed on Driver: {r.out[-1500:]}")
            return rep.finish()
        # the unbounded argument: DriverInd.tla (counters) has an inductive invariant that Apalache discharges for every
        # call length, number of calls / rebuilds and interval; Driver.tla above has just checked that it IS an abstraction
        # of the machine (C15_AbstractionInv, C15_AbstractionStep)
        from concurrent.futures import ThreadPoolExecutor

        from tlc import run_apalache

        goals = [("init", ["--init=IndInit", "--inv=IndInv", "--length=0"]), ("step", ["--init=IndInv", "--inv=IndInv", "--length=1"]), ("claims", ["--init=IndInv", "--inv=Claims", "--length=0"])]
        with ThreadPoolExecutor(3) as ex:
            outcomes = list(ex.map(lambda g: run_apalache("DriverInd", g[1]), goals))
        for (gname, _), (ok, violated, text) in zip(goals, outcomes):
            if violated:
                rep.violation(f"model:DriverInd:{gname}", f"Apalache: the inductive argument for C15 on counters fails at '{gname}' (DriverInd.tla)", {"apalache": text})
            elif not ok:
                rep.error(f"Apalache failed on DriverInd ({gname}): {text[-800:]}")
        rep.add(apalache_inductive_goals=len(goals))
        cases = [json.loads(l) for l in open(out)]
        if tier == "thorough":
            # liveness under weak fairness: every plan is eventually executed completely (FairSpec, <>Quiescent)
            env.pop("DRV_OUT")
            rl = run_tlc("Driver", "MC_Driver_live.cfg", workers=16, env=env, timeout=3000)
            if not rl.ok:
                if "Temporal properties were violated" in rl.out or "violated" in rl.out:
                    rep.violation("model:C15_PlanCompletes", "TLC: Driver.tla admits a fair behaviour in which a plan is never completed", {"tlc": rl.out[-2000:]})
                else:
                    rep.error(f"TLC failed on Driver (liveness): {rl.out[-1500:]}")
            rep.add(liveness_states=rl.distinct)
    finally:
        shutil.rmtree(tmp, ignore_errors=True)
    stride = 13 if tier == "quick" else (5 if len(cases) > 50000 else 1)
    kinds = ("canonical", "gc", "fbmc")
    nrep = 0
    nhang = 0
    for ci, c in enumerate(cases):
        if ci % stride:
            continue
        kind = kinds[(ci // stride) % 3]
        if kind == "fbmc" and any(call["entry"] == "rebuild" for call in c["plan"]):
            kind = "canonical" if ci % 2 else "gc"  # ForceBias offers no from_dict
        is_mc = kind != "fbmc"
        obs = c["obs"]
        pos = [i for i in obs if i > 0]
        log_iv = pos[0] if pos else obs[0]
        neg = [i for i in obs if i < 0]
        if neg and ci % 3 == 0:
            log_iv = neg[0]   # a one-shot default logger (and restart observer): the header is still written once, first
        seed = 1000 + ci
        nrep += 1
        zero = any(call["n"] == 0 and call["entry"] != "rebuild" for call in c["plan"])
        first_zero = c["plan"][0]["n"] == 0
        rep.count(json.dumps([c["plan"], obs, kind]), nontrivial=len(c["plan"]) > 1)
        if nrep % 300 == 1:
            rep.sample({"plan": c["plan"], "observer_intervals": obs, "driver": kind, "expected_calls": c["expected"]})
        ctx = {"case": c, "driver": kind, "seed": seed}
        has_rebuild = any(call["entry"] == "rebuild" for call in c["plan"])
        tag = f"{kind}:{'rebuilt:' if has_rebuild else ''}{'' if c['log'] else 'no-logfile:'}{'zero-length-first' if first_zero else ('zero-length-call' if zero else 'split')}"
        try:
            with_log = bool(c["log"])
            mc, files = build(kind, seed, log_iv, with_log)
            logs = attach(mc, obs)

            def rebuild(old, kind=kind, log_iv=log_iv, with_log=with_log, files=files, logs=logs, obs=obs):
                from ase.io.jsonio import decode, encode

                data = decode(encode(old.to_dict()))
                new, _ = build(kind, None, log_iv, with_log, files=files, data=data)
                attach(new, obs, logs)
                return new

            with watchdog(5):  # (a plan of at most 6 steps takes milliseconds)
                mc = execute(mc, c["plan"], is_mc, rebuild, lazy=bool(ci % 2))
                ref, rfiles = build(kind, seed, log_iv, with_log)
                rlogs = attach(ref, obs)
                ref.run(c["total"])
        except Hang:
            nhang += 1
            rep.violation(f"call-does-not-return:{tag}", f"{kind}: executing plan {c['plan']} (total {c['total']} steps) did not return within 5 s: a call performs (far) more than the requested number of steps", ctx)
            if nhang >= 8:
                break  # every further case of this kind would cost another 5 s and megabytes of output
            continue
        except Exception as ex:  # noqa: BLE001
            rep.violation(f"raise:{tag}:{type(ex).__name__}", f"executing plan {c['plan']} on {kind} raised {ex!r}", ctx)
            continue
        for iv, want in zip(obs, c["expected"]):
            if logs[iv] != want:
                sign = "positive" if iv > 0 else "negative"
                what = "repeated-step0" if logs[iv].count(0) > 1 else ("missing" if len(logs[iv]) < len(want) else "extra")
                rep.violation(f"calls:{sign}:{what}:{tag}", f"{kind}: observer with interval {iv} was called at steps {logs[iv]}, schedule says {want} (plan {c['plan']})", ctx)
                break
        if int(mc.step_count) != c["total"]:
            rep.violation(f"step-count:{tag}", f"{kind}: step counter {mc.step_count} after plan {c['plan']}, expected {c['total']}", ctx)
        log = files["log"].getvalue() if with_log else ""
        rlog = rfiles["log"].getvalue() if with_log else ""
        lines = log.splitlines()
        nrows = len([s for s in range(c["total"] + 1) if (log_iv > 0 and s % log_iv == 0) or (log_iv < 0 and s == -log_iv)])
        header = lines[0] if lines else ""
        if not with_log:
            pass
        elif lines and lines.count(header) != 1:
            rep.violation(f"header:{tag}", f"{kind}: log header written {lines.count(header)} times (plan {c['plan']})", ctx)
        elif len(lines) != (nrows + 1 if (nrows or lines) else 0):
            rep.violation(f"log-rows:{tag}", f"{kind}: log has {len(lines) - 1} rows, schedule says {nrows} (plan {c['plan']})", ctx)
        if log != rlog:
            rep.violation(f"log-differs-from-unsplit:{tag}", f"{kind}: log file after plan {c['plan']} differs from run({c['total']})", dict(ctx, split_log=log[-600:], unsplit_log=rlog[-600:]))
        # the default restart observer shares the logging interval: one rewrite per scheduled call
        nsched = len([st for st in range(c["total"] + 1) if (log_iv > 0 and st % log_iv == 0) or (log_iv < 0 and st == -log_iv)])
        if files["rst"].rewrites != nsched:
            rep.violation(f"restart-observer-calls:{tag}", f"{kind}: the default restart observer rewrote its file {files['rst'].rewrites} times, its schedule (interval {log_iv}, {c['total']} steps) has {nsched} calls (plan {c['plan']})", ctx)
        if has_rebuild:
            # a rebuilt simulation has a fresh calculator: whether a frame carries energy/forces depends on what the
            # calculator has cached at that moment (not on the schedule) -- compare frames and positions
            from ase.io import read

            fa = read(io.StringIO(files["traj"].getvalue()), index=":", format="extxyz") if files["traj"].getvalue() else []
            fb = read(io.StringIO(rfiles["traj"].getvalue()), index=":", format="extxyz") if rfiles["traj"].getvalue() else []
            if len(fa) != len(fb) or any(len(x) != len(y) or not np.allclose(x.positions, y.positions, atol=1e-7) for x, y in zip(fa, fb)):
                rep.violation(f"trajectory-differs-from-unsplit:{tag}", f"{kind}: trajectory frames after plan {c['plan']} differ from run({c['total']}) ({len(fa)} vs {len(fb)} frames)", ctx)
        elif files["traj"].getvalue() != rfiles["traj"].getvalue():
            rep.violation(f"trajectory-differs-from-unsplit:{tag}", f"{kind}: trajectory file after plan {c['plan']} differs from run({c['total']})", ctx)
        if mc.atoms.positions.tobytes() != ref.atoms.positions.tobytes() or len(mc.atoms) != len(ref.atoms):
            rep.violation(f"atoms-differ-from-unsplit:{tag}", f"{kind}: final atoms after plan {c['plan']} differ from run({c['total']})", ctx)
        try:
            mc.close()
            ref.close()
        except Exception:  # noqa: BLE001
            pass
    rep.add(states=r.distinct, transitions=r.generated, traces_validated_against_impl=nrep, exhaustive=(stride == 1), plans_enumerated=len(cases),
            rule=f"every plan = sequence of <= 3 consecutive calls (lengths incl. 0, entry point run/srun/irun each) with total <= {4 if tier == 'quick' else 6} steps x 7 observer-interval sets, enumerated by TLC (Driver.tla) with the expected call schedule; replayed (every {stride}th case, drivers Canonical / GrandCanonical / ForceBias in rotation) with recording observers, default logger and trajectory on in-memory files, and compared with the schedule and with the unsplit run of the same seed (observer calls, step counter, header, rows, log bytes, trajectory bytes, final positions); non-trivial = more than one call")
    rep.assumptions += ["ForceBias offers no srun: srun entries are executed with run there", "irun is fully iterated (each yielded step generator is exhausted)"]
    return rep.finish()
