"""C13 -- force-bias steps are bounded and follow the published force-biased density
(spec/FBMC.tla).

(i)   lattice replay: forces giving gamma = k ln 2 exactly, zeta = j/4 and u = (2r+1)/32
      imposed through the simulation's own generator; TLC's accept table decides which
      coordinates must converge in which round; observed: fbmc.zeta, fbmc.gamma, the
      position change.  Applicable only if the code consumes the draws in the pattern
      uniform(-1,1) / random() per round (checked from the draw log).
(ii)  real generator, prescribed forces of every magnitude: bound, termination, exactly one
      position update, finite results.
(iii) density: chi-square of zeta against the bin masses of the published density, mean zeta
      against its integral, |z| <= 6."""

from __future__ import annotations

import json
import math
import os
import shutil
import tempfile
import warnings

import numpy as np
from ase import Atoms
from ase.calculators.calculator import Calculator, all_changes
from ase.units import kB

from common import Report
from scripted_rng import ScriptedGenerator
from tlc import run_tlc


class FixedForces(Calculator):
    implemented_properties = ("energy", "forces")

    def __init__(self, forces, **kw):
        super().__init__(**kw)
        self.f = np.array(forces, float)

    def calculate(self, atoms=None, properties=("energy",), system_changes=all_changes):
        super().calculate(atoms, properties, system_changes)
        self.results = {"energy": 0.0, "forces": self.f.copy()}


class CountingAtoms(Atoms):
    nset = 0

    def set_positions(self, *a, **k):
        type(self).nset += 1
        return super().set_positions(*a, **k)


class LimitedGenerator(ScriptedGenerator):
    """raises after `limit` calls of random(): a rejection loop that does not terminate becomes an event"""

    limit = 20000

    def random(self, size=None, *a, **k):
        if len(self.log) > self.limit:
            raise RuntimeError("NoTermination")
        return super().random(size, *a, **k)


def make(forces, delta, T, masses=None, power=None, seed=5, cls=None):
    from quansino.mc.fbmc import ForceBias

    n = len(forces)
    atoms = (cls or Atoms)("Cu" * n, positions=np.arange(3 * n, dtype=float).reshape(n, 3) * 1.7 + 1.0, cell=[30, 30, 30], pbc=False)
    if masses is not None:
        atoms.set_masses(masses)
    atoms.calc = FixedForces(forces)
    with warnings.catch_warnings():
        warnings.simplefilter("ignore")
        fb = ForceBias(atoms, delta=delta, temperature=T, seed=seed)
    if power is not None:
        fb.masses_scaling_power = power
    return fb


def P(z, g):
    """published acceptance function (vectorised, float)"""
    z = np.asarray(z, float)
    if abs(g) < 1e-12:
        return np.ones_like(z)
    den = math.exp(g) - math.exp(-g)
    return np.where(z > 0, (math.exp(g) - np.exp(g * (2 * z - 1))) / den, (np.exp(g * (2 * z + 1)) - math.exp(-g)) / den)


def run(tier: str) -> int:
    from scipy import integrate, stats

    rep = Report("C13", tier, "model_checking")
    warnings.simplefilter("ignore")
    rs = np.random.RandomState(rep.seed % 2**32)
    tmp = tempfile.mkdtemp(prefix="c13_")
    try:
        out = os.path.join(tmp, "fb.ndjson")
        r = run_tlc("FBMC", "MC_FBMC.cfg", workers=16, env={"FB_OUT": out}, timeout=900)
        if not r.ok:
            if r.invariant_violated:
                rep.violation(f"model:{r.invariant_violated[0]}", f"TLC: {r.invariant_violated[0]} violated in FBMC.tla", {"tlc": r.out[-2000:]})
            else:
                rep.error(f"TLC failed on FBMC: {r.out[-1200:]}")
            return rep.finish()
        table = {(t["k"], t["j"], t["r"]): t for t in map(json.loads, open(out))}
    finally:
        shutil.rmtree(tmp, ignore_errors=True)
    # the float form of P must agree with TLC's rational on the whole lattice (binds this file's P to the spec)
    for (k, j, r_), t in table.items():
        if abs(float(P(j / 4, k * math.log(2))) - t["num"] / t["den"]) > 1e-12:
            rep.error(f"float P disagrees with FBMC.tla at k={k} j={j}")
            break
    # ---- (i) lattice replay -------------------------------------------------------------------------
    T, delta = 700.0, 0.08
    ks = sorted({k for k, _, _ in table})
    js = sorted({j for _, j, _ in table})
    nlat = 400 if tier == "quick" else 6000
    skipped = 0
    for it in range(nlat):
        n = 2
        kk = rs.choice(ks, size=(n, 3))
        forces = kk * math.log(2) * 2 * kB * T / delta
        masses = rs.uniform(1, 200, n) if it % 2 else None
        power = float(rs.choice([0.0, 0.25, 1.0]))
        if it % 2:
            # temperature and delta are public attributes: built with other values, re-assigned before the step
            if it % 4 == 1:
                # a step has been made before, with ANOTHER force field; then the calculator is swapped (no atom moves):
                # the step under test must be biased by the forces of the system it starts from
                other = rs.choice(ks, size=(n, 3)) * math.log(2) * 2 * kB * T / delta
                fb = make(other, delta * 3.0, T * 7.0, masses=masses, power=power, seed=int(rs.randint(1, 10**6)))
                fb.step()
                fb.atoms.calc = FixedForces(forces)
            else:
                fb = make(forces, delta * 3.0, T * 7.0, masses=masses, power=power, seed=int(rs.randint(1, 10**6)))
            fb.temperature = T
            fb.delta = delta
        else:
            fb = make(forces, delta, T, masses=masses, power=power, seed=int(rs.randint(1, 10**6)))
        if it % 3 == 0 and masses is not None:
            # a non-uniform mass-scaling power (per coordinate), set through the documented setter
            power = rs.choice([0.0, 0.1, 0.5, 1.0], size=(n, 3))
            fb.masses_scaling_power = power
        g = ScriptedGenerator(3)
        fb._rng = g
        # plan the rounds with TLC's table: up to 3 rounds, the last one must be accepted everywhere
        conv = np.zeros((n, 3), bool)
        zfinal = np.zeros((n, 3))
        rounds = []
        for rd in range(3):
            idx = np.argwhere(~conv)
            zs, us = [], []
            for (a, c) in idx:
                k = int(kk[a, c])
                while True:
                    j = int(rs.choice(js))
                    r_ = int(rs.randint(0, 16))
                    if rd < 2 or table[(k, j, r_)]["accept"]:
                        break
                zs.append(j / 4)
                us.append((2 * r_ + 1) / 32)
                if table[(k, j, r_)]["accept"]:
                    conv[a, c] = True
                zfinal[a, c] = j / 4 if True else 0
            rounds.append((idx, np.array(zs), np.array(us)))
            if conv.all():
                break
        # final zeta of a coordinate = the zeta of the round in which it converged (later rounds do not redraw it)
        conv2 = np.zeros((n, 3), bool)
        for idx, zs, us in rounds:
            for (a, c), z, u in zip(idx, zs, us):
                if not conv2[a, c]:
                    zfinal[a, c] = z
                    k = int(kk[a, c])
                    conv2[a, c] = table[(k, int(round(z * 4)), int(round((u * 32 - 1) / 2)))]["accept"]
        first = True
        for idx, zs, us in rounds:
            g.script("uniform", zs.reshape(n, 3) if first else zs)
            g.script("random", us.reshape(n, 3) if first else us)
            first = False
        pos0 = fb.atoms.get_positions()
        rep.count(("lattice", it), nontrivial=len(rounds) > 1)
        ctx = {"k": kk.tolist(), "rounds": [(z.tolist(), u.tolist()) for _, z, u in rounds], "power": np.asarray(power).tolist()}
        try:
            fb.step()
        except Exception as ex:  # noqa: BLE001
            # a scripted array of the wrong size can itself raise: decide with the real generator
            fb._rng = ScriptedGenerator(4)
            try:
                fb.step()
            except Exception as ex2:  # noqa: BLE001
                rep.violation(f"raise:lattice:{type(ex2).__name__}", f"ForceBias.step raised {ex2!r} on the lattice", ctx)
                continue
            if not np.allclose(fb.gamma, kk * math.log(2), rtol=1e-12, atol=1e-12):
                rep.violation("lattice:gamma", f"gamma = {np.asarray(fb.gamma).tolist()}, expected k ln 2 with k = {kk.tolist()} (temperature / delta as last assigned)", ctx)
            else:
                skipped += 1
            continue
        pattern = [(l[0], l[1] if l[0] == "uniform" else None) for l in g.log]
        want_pattern = []
        for _ in rounds:
            want_pattern += [("uniform", (-1.0, 1.0)), ("random", None)]
        if pattern != want_pattern:
            if g.scripts.get("uniform") or g.scripts.get("random") or len(pattern) != len(want_pattern):
                # how many rounds the code ran is itself the observable: more or fewer rounds than TLC's table says
                if [p[0] for p in pattern[: len(want_pattern)]] == [p[0] for p in want_pattern[: len(pattern)]] and all(p[1] in (None, (-1.0, 1.0)) for p in pattern):
                    rep.violation("lattice:number-of-rounds", f"the rejection loop ran {len(pattern) // 2} rounds, the acceptance table says {len(rounds)} (gamma = k ln2 with k = {kk.tolist()})", ctx)
                else:
                    skipped += 1  # draws consumed in another pattern: the scripted layer does not apply
                continue
        if not np.allclose(fb.gamma, kk * math.log(2), rtol=1e-12, atol=1e-12):
            rep.violation("lattice:gamma", f"gamma = {np.asarray(fb.gamma).tolist()}, expected k ln 2 with k = {kk.tolist()}", ctx)
            continue
        if not np.array_equal(np.asarray(fb.zeta), zfinal):
            rep.violation("lattice:accepted-zeta", f"final zeta {np.asarray(fb.zeta).tolist()} differs from the draws the published acceptance function accepts {zfinal.tolist()}", ctx)
            continue
        m = fb.atoms.get_masses()[:, None] * np.ones((1, 3))
        want = zfinal * delta * np.power(m.min() / m, power)
        if not np.allclose(fb.atoms.get_positions() - pos0, want, rtol=1e-12, atol=1e-14):
            rep.violation("lattice:displacement", "position change is not zeta * delta * (m_min/m)^p", dict(ctx, got=(fb.atoms.get_positions() - pos0).tolist(), want=want.tolist()))
    # ---- (ii) real generator, forces of every magnitude ---------------------------------------------------
    nmag = 120 if tier == "quick" else 2000
    mags = [0.0, 1e-300, 1e-12, 1e-3, 1.0, 50.0, 1e3, 1e8, 1e150, 1e300]
    for it in range(nmag):
        n = int(rs.randint(1, 5))
        forces = rs.choice(mags, size=(n, 3)) * rs.choice([-1.0, 1.0], size=(n, 3))
        per_coord = it % 3 == 0
        delta_ = rs.uniform(0.01, 0.5, size=(n, 3)) if per_coord else float(rs.choice([0.01, 0.1, 0.7]))
        T_ = float(rs.choice([1.0, 300.0, 5000.0]))
        masses = rs.uniform(1, 200, n)
        power = float(rs.choice([0.0, 0.25, 0.5, 1.0]))
        CountingAtoms.nset = 0
        fictitious = it % 5 == 3
        # every fifth instance: the masses are FICTITIOUS sampling masses given to the driver (update_masses), per atom
        # or per coordinate, while the atoms keep their own masses
        fb = make(forces, delta_, T_, masses=None if fictitious else masses, power=power, seed=int(rs.randint(1, 10**6)), cls=CountingAtoms)
        if fictitious:
            if it % 2:
                masses = rs.uniform(1, 200, (n, 3))
            fb.update_masses(np.array(masses, dtype=float))
        # the three documented spellings of masses_scaling_power: float, per-element dict, (N,3) array
        if it % 4 == 1:
            fb.masses_scaling_power = {"Cu": power}
        elif it % 4 == 2:
            parr = rs.choice([0.0, 0.25, 1.0], size=(n, 3))
            fb.masses_scaling_power = parr
            power = parr
        g = LimitedGenerator(int(rs.randint(1, 10**6)))
        fb._rng = g
        pos0 = fb.atoms.get_positions()
        CountingAtoms.nset = 0
        rep.count(("magnitude", it))
        ctx = {"forces": forces.tolist(), "delta": np.asarray(delta_).tolist(), "T": T_, "power": np.asarray(power).tolist(), "fictitious_masses": bool(fictitious)}
        try:
            fb.step()
        except RuntimeError as ex:
            if "NoTermination" in str(ex):
                rep.violation("no-termination", f"the rejection loop did not terminate within {LimitedGenerator.limit} rounds for forces {forces.tolist()}", ctx)
                continue
            raise
        except Exception as ex:  # noqa: BLE001
            rep.violation(f"raise:step:{type(ex).__name__}", f"ForceBias.step raised {ex!r} for finite forces", ctx)
            continue
        d = fb.atoms.get_positions() - pos0
        m = (masses[:, None] if np.ndim(masses) == 1 else masses) * np.ones((1, 3))
        bound = np.asarray(delta_) * np.power(m.min() / m, power)
        if not np.all(np.isfinite(d)):
            rep.violation("non-finite-displacement", "the step produced a non-finite position", ctx)
        elif np.any(np.abs(d) > bound * (1 + 1e-12) + 1e-300):
            rep.violation("bound-exceeded", f"|dx| exceeds delta (m_min/m)^p: max ratio {float(np.max(np.abs(d) / bound)):.6f}", ctx)
        if CountingAtoms.nset != 1:
            rep.violation("advance-not-once", f"the configuration was advanced {CountingAtoms.nset} times in one step", ctx)
        big = np.abs(forces * np.asarray(delta_) / (2 * kB * T_)) > 300
        if np.any(big & (np.sign(d) == -np.sign(forces)) & (np.abs(d) > 0.05 * bound)):
            rep.violation("huge-force-moved-against", "a coordinate with |gamma| > 300 moved against its force by more than 5% of the bound (probability < 1e-13)", ctx)
    # ---- (iii) density ---------------------------------------------------------------------------------------
    gammas = [0.5, -2.0, 8.0] if tier == "quick" else [0.5, -0.5, 2.0, -2.0, 8.0, -8.0, 50.0, -50.0]
    nsteps = 2500 if tier == "quick" else 12000
    T, delta = 500.0, 0.05
    worst = 0.0
    for gam in gammas:
        n = 4
        forces = np.full((n, 3), gam * 2 * kB * T / delta)
        fb = make(forces, delta, T, seed=int(rs.randint(1, 10**6)))
        zs = []
        for _ in range(nsteps):
            fb.step()
            zs.append(np.asarray(fb.zeta).ravel().copy())
        z = np.concatenate(zs)
        norm, _ = integrate.quad(lambda x: float(P(x, gam)), -1, 1, points=[0])
        edges = np.linspace(-1, 1, 21)
        mass = np.array([integrate.quad(lambda x: float(P(x, gam)), a, b)[0] for a, b in zip(edges[:-1], edges[1:])]) / norm
        obs, _ = np.histogram(z, bins=edges)
        keep = mass * len(z) >= 8
        chi2 = float((((obs - mass * len(z)) ** 2) / (mass * len(z)))[keep].sum())
        dof = int(keep.sum()) - 1
        pval = float(stats.chi2.sf(chi2, dof))
        mean_want = integrate.quad(lambda x: x * float(P(x, gam)), -1, 1, points=[0])[0] / norm
        var_want = integrate.quad(lambda x: (x - mean_want) ** 2 * float(P(x, gam)), -1, 1, points=[0])[0] / norm
        zscore = (z.mean() - mean_want) / math.sqrt(var_want / len(z))
        worst = max(worst, abs(zscore))
        rep.count(("density", gam))
        if pval < 1e-9 or abs(zscore) > 6:
            rep.violation(f"density:gamma{'+' if gam > 0 else '-'}{'small' if abs(gam) < 1 else ('moderate' if abs(gam) < 10 else 'large')}",
                          f"zeta at gamma = {gam}: chi2 = {chi2:.1f} ({dof} dof, p = {pval:.2e}), mean {z.mean():.4f} vs {mean_want:.4f} (z = {zscore:.1f}) over {len(z)} samples", {"gamma": gam, "hist": obs.tolist(), "expected": (mass * len(z)).tolist()})
        if len(rep.samples) < 3:
            rep.sample({"gamma": gam, "samples": len(z), "mean_zeta": float(z.mean()), "mean_expected": mean_want, "chi2": chi2, "dof": dof})
    # ---- (iv) the adaptive driver: every step is biased and scaled with ITS OWN delta -------------------------------
    # constant forces, a committee whose spread changes from evaluation to evaluation (so delta changes from step to step);
    # after each step: gamma = F delta / 2kT with the delta the driver shows, displacement = zeta delta (m_min/m)^p
    from quansino.mc.fbmc import AdaptiveForceBias

    class Committee(FixedForces):
        def __init__(self, forces, spreads):
            super().__init__(forces)
            self.spreads = spreads
            self.k = 0

        def calculate(self, atoms=None, properties=("energy",), system_changes=all_changes):
            super().calculate(atoms, properties, system_changes)
            x = self.spreads[self.k % len(self.spreads)]
            self.k += 1
            n_ = len(self.atoms)
            base = np.ones((n_, 3))
            self.results["forces_comm"] = np.stack([base * (1 - x), base * (1 + x)])
            self.results["energies"] = np.array([-x * n_, x * n_]) + 3.0

    nad = 0
    for it in range(6 if tier == "quick" else 60):
        scheme = ("forces", "energy")[it % 2]
        fn = ("tanh", "exp")[(it // 2) % 2]
        n = 3
        T = float(rs.choice([300.0, 900.0]))
        forces = rs.choice([-1.0, 1.0], size=(n, 3)) * rs.uniform(0.5, 3.0, size=(n, 3))
        atoms = Atoms("HCuAu", positions=np.arange(9, dtype=float).reshape(3, 3) * 1.9 + 1.0, cell=[30, 30, 30], pbc=False)
        atoms.calc = Committee(forces, spreads=[0.0, 0.05, 0.4, 0.01, 0.2])
        afb = AdaptiveForceBias(atoms, min_delta=0.02, max_delta=0.3, temperature=T, scheme=scheme, reference_variance=0.05, update_function=fn, seed=int(rs.randint(1, 10**6)))
        deltas = []
        for st in range(8):
            pos0 = afb.atoms.get_positions()
            afb.step()
            nad += 1
            d_ = np.asarray(afb.delta, float) * np.ones((n, 3))
            deltas.append(float(d_.mean()))
            want_gamma = np.clip(forces * d_ / (2 * kB * T), -afb.gamma_max_value, afb.gamma_max_value)
            m = afb.atoms.get_masses()[:, None] * np.ones((1, 3))
            want_disp = np.asarray(afb.zeta) * d_ * np.power(m.min() / m, afb.masses_scaling_power)
            ctx = {"scheme": scheme, "update_function": fn, "step": st, "delta": d_.tolist(), "gamma": np.asarray(afb.gamma).tolist()}
            if not np.allclose(afb.gamma, want_gamma, rtol=1e-12, atol=1e-14):
                rep.violation("adaptive:gamma-not-of-this-steps-delta", f"AdaptiveForceBias ({scheme}, {fn}) step {st}: gamma is not F delta / 2kT for the delta of this step (the bias belongs to another step length than the displacement)", ctx)
                break
            if not np.allclose(afb.atoms.get_positions() - pos0, want_disp, rtol=1e-12, atol=1e-14):
                rep.violation("adaptive:displacement-not-of-this-steps-delta", f"AdaptiveForceBias ({scheme}, {fn}) step {st}: the position change is not zeta delta (m_min/m)^p for the delta of this step", ctx)
                break
        rep.count(("adaptive", it), nontrivial=len(set(round(x, 9) for x in deltas)) > 2)
        if len(deltas) == 8 and len(set(round(x, 9) for x in deltas)) <= 2:
            rep.error(f"adaptive layer: delta did not vary from step to step ({deltas}): the layer exercises nothing")
    rep.add(adaptive_steps=nad)
    rep.add(states=r.distinct, transitions=r.generated, traces_validated_against_impl=nlat + nmag, lattice_steps=nlat, lattice_layer_not_applicable=skipped, magnitude_steps=nmag, density_samples=len(gammas) * nsteps * 12, worst_mean_z=round(worst, 2),
            rule="(i) random lattice instances (gamma = k ln2 per coordinate, k in {0,+-2,+-4,+-6}; up to 3 rounds of scripted (zeta = j/4, u = (2r+1)/32) draws; masses 1..200, powers 0..1): converged coordinates, final zeta, gamma and displacement must equal what FBMC.tla's accept table implies; (ii) real generator with forces from {0, 1e-300 .. 1e300} of mixed sign, scalar and per-coordinate delta, T in {1, 300, 5000}: bound, termination, one position update, finiteness; (iii) chi-square (20 bins) and mean of zeta against the published density at several gamma; non-trivial (lattice) = more than one round")
    rep.assumptions += ["the density clause is statistical (p >= 1e-9, |z| <= 6)", "the lattice layer applies only when the code draws uniform(-1,1) then random() per round; otherwise it is counted as not applicable and layers (ii), (iii) decide"]
    return rep.finish()
