"""Thin driver around TLC 1.8 (tla2tools on PATH)."""

from __future__ import annotations

import os
import re
import shutil
import subprocess
import tempfile
import time
from pathlib import Path

from common import SPEC

JAR = "/opt/veriftools/tla/tla2tools.jar:/opt/veriftools/tla/CommunityModules-deps.jar"


class TLCResult:
    def __init__(self, rc, out, wall):
        self.rc = rc
        self.out = out
        self.wall = wall
        self.states = 0
        self.distinct = 0
        self.generated = 0
        m = re.search(r"(\d+) states generated, (\d+) distinct states found", out)
        if m:
            self.generated = int(m.group(1))
            self.distinct = int(m.group(2))
        self.ok = rc == 0 and "Model checking completed. No error has been found" in out
        self.sim_ok = "Error:" not in out
        self.invariant_violated = re.findall(r"Invariant (\S+) is violated", out)
        self.property_violated = "Action property" in out and "violated" in out
        self.prints = self._prints(out)

    @staticmethod
    def _prints(out):
        """Values printed by PrintT/Print, parsed by bracket matching: a line
        that starts a TLA+ value may continue over several lines."""
        res = []
        for line in out.splitlines():
            if line.startswith("@@"):
                res.append(line[2:])
        return res

    def coverage_actions(self):
        """Per-action counts from -coverage output: {action: (generated, distinct)}"""
        res = {}
        for m in re.finditer(r"<(\w+) line \d+, col \d+ to line \d+, col \d+ of module (\w+)>: (\d+):(\d+)", self.out):
            res[m.group(1)] = (int(m.group(4)), int(m.group(3)))
        return res


def run_tlc(module: str, cfg: str | None = None, workers: int | str = 16, extra: list[str] | None = None, env: dict | None = None,
            timeout: int = 900, deadlock: bool = False, dfs: bool = False, coverage: bool = False, cwd: Path | None = None) -> TLCResult:
    """Run TLC on spec/<module>.tla with spec/<cfg>; metadir is a temp dir removed afterwards."""
    meta = tempfile.mkdtemp(prefix="tlcmeta_")
    cwd = cwd or SPEC
    cmd = ["java", "-XX:+UseParallelGC", "-Xmx8g"]
    if dfs:
        cmd.append("-Dtlc2.tool.queue.IStateQueue=StateDeque")
    cmd += ["-cp", JAR, "tlc2.TLC", "-workers", str(workers), "-metadir", meta, "-noGenerateSpecTE"]
    if not deadlock:
        cmd.append("-deadlock")  # -deadlock DISABLES deadlock checking
    if coverage:
        cmd += ["-coverage", "1"]
    if cfg:
        cmd += ["-config", cfg]
    if extra:
        cmd += extra
    cmd.append(module)
    e = dict(os.environ)
    if env:
        e.update(env)
    t0 = time.time()
    try:
        p = subprocess.run(cmd, cwd=cwd, env=e, capture_output=True, text=True, timeout=timeout)
        out = p.stdout + p.stderr
        rc = p.returncode
    except subprocess.TimeoutExpired as ex:
        out = (ex.stdout or b"").decode() if isinstance(ex.stdout, bytes) else (ex.stdout or "")
        out += "\nTIMEOUT"
        rc = 124
    finally:
        shutil.rmtree(meta, ignore_errors=True)
    return TLCResult(rc, out, time.time() - t0)


def run_apalache(module: str, args: list[str], timeout: int = 600):
    """apalache-mc check <args> spec/<module>.tla in a temp out-dir; -> (ok, violated, text).  ok = 'NoError';
    violated = the checker found a counterexample; neither = machinery failure (text explains)."""
    out_dir = tempfile.mkdtemp(prefix="apa_")
    try:
        p = subprocess.run(["apalache-mc", "check", *args, f"--out-dir={out_dir}", f"--run-dir={out_dir}/run", str(SPEC / f"{module}.tla")], cwd=out_dir, capture_output=True, text=True, timeout=timeout)
        text = p.stdout + p.stderr
    except subprocess.TimeoutExpired:
        return False, False, "TIMEOUT"
    except FileNotFoundError:
        return False, False, "apalache-mc not on PATH"
    finally:
        shutil.rmtree(out_dir, ignore_errors=True)
    ok = p.returncode == 0 and "The outcome is: NoError" in text
    violated = "The outcome is: Error" in text and "invariant" in text and "violated" in text
    return ok, violated, text[-3000:]


def tla_value_to_py(s: str):
    """Parse a TLA+ value as printed by TLC (records, sequences, sets, ints,
    strings, booleans, functions (a :> b @@ c :> d)) into Python."""
    pos = 0
    n = len(s)

    def ws():
        nonlocal pos
        while pos < n and s[pos] in " \n\t\r":
            pos += 1

    def parse():
        nonlocal pos
        ws()
        c = s[pos]
        if c == "[":
            pos += 1
            d = {}
            ws()
            if s[pos] == "]":
                pos += 1
                return d
            while True:
                ws()
                m = re.match(r"[A-Za-z_][A-Za-z0-9_]*", s[pos:])
                key = m.group(0)
                pos += len(key)
                ws()
                assert s[pos:pos + 3] == "|->", s[pos:pos + 20]
                pos += 3
                d[key] = parse()
                ws()
                if s[pos] == ",":
                    pos += 1
                    continue
                assert s[pos] == "]", s[pos:pos + 20]
                pos += 1
                return d
        if s.startswith("<<", pos):
            pos += 2
            lst = []
            ws()
            if s.startswith(">>", pos):
                pos += 2
                return lst
            while True:
                lst.append(parse())
                ws()
                if s[pos] == ",":
                    pos += 1
                    continue
                assert s.startswith(">>", pos), s[pos:pos + 20]
                pos += 2
                return lst
        if c == "{":
            pos += 1
            lst = []
            ws()
            if s[pos] == "}":
                pos += 1
                return lst
            while True:
                lst.append(parse())
                ws()
                if s[pos] == ",":
                    pos += 1
                    continue
                assert s[pos] == "}", s[pos:pos + 20]
                pos += 1
                return lst
        if c == "(":
            # function  (a :> b @@ c :> d)
            pos += 1
            d = {}
            while True:
                k = parse()
                ws()
                assert s.startswith(":>", pos)
                pos += 2
                v = parse()
                d[k if not isinstance(k, list) else tuple(k)] = v
                ws()
                if s.startswith("@@", pos):
                    pos += 2
                    continue
                assert s[pos] == ")"
                pos += 1
                return d
        if c == '"':
            j = pos + 1
            buf = []
            while s[j] != '"':
                if s[j] == "\\":
                    j += 1
                buf.append(s[j])
                j += 1
            pos = j + 1
            return "".join(buf)
        m = re.match(r"-?\d+", s[pos:])
        if m:
            pos += len(m.group(0))
            return int(m.group(0))
        m = re.match(r"[A-Za-z_][A-Za-z0-9_]*", s[pos:])
        if m:
            w = m.group(0)
            pos += len(w)
            if w == "TRUE":
                return True
            if w == "FALSE":
                return False
            return w
        raise ValueError(f"cannot parse at {pos}: {s[pos:pos + 40]!r}")

    v = parse()
    return v


def sany(module: str) -> tuple[bool, str]:
    p = subprocess.run(["java", "-cp", JAR, "tla2sany.SANY", module], cwd=SPEC, capture_output=True, text=True)
    out = p.stdout + p.stderr
    ok = p.returncode == 0 and "Semantic errors" not in out and "Parse Error" not in out and "Could not" not in out and "Fatal" not in out
    return ok, out
