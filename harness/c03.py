"""C03 -- engine traces validated against spec/QMC.tla (see qcheck.py); MultiContexts.tla (the statement lifted to a
family of systems) replayed on the real MultiContexts (multictx.py)."""
from qcheck import engine_check


def run(tier):
    from multictx import multi_contexts_layer

    rep = engine_check("C03", tier, finish=False)
    s, _ = multi_contexts_layer(rep, tier)
    rep.add(states=s)
    return rep.finish()


def replay(record):
    from qcheck import replay as r

    return r(record)
