"""C10 -- proposal operations stay within their advertised geometry and are symmetric
(spec/Proposal.tla, Proposal_Trace.tla).

(1) masks: all 512 Boolean 3x3 masks (enumerated by TLC) x the three deformation kinds: masked-out
    components equal the identity, the others equal the raw gradient of the same draw (exact).
(2) contracts: thousands of real calls of every operation (step sizes 1e-3..10, cubic /
    orthorhombic / triclinic cells, groups of 1..5 atoms of unequal masses, random masks) become
    events whose numeric predicates (tolerances below) are judged by TLC against Proposal.tla.
(3) symmetry ("as likely as its inverse") is distributional: mean / paired-octant / KS tests of
    d vs -d, rotation vectors w vs -w (Kabsch), log F vs -log F; uniformity of the translated
    centroid; |z| <= 6."""

from __future__ import annotations

import json
import math
import os
import shutil
import tempfile
import warnings

import numpy as np
from ase import Atoms

from common import Report
from tlc import run_tlc

TOL = 1e-9


def ctx_for(atoms, seed, moving=None):
    from quansino.mc.contexts import DisplacementContext

    c = DisplacementContext(atoms, np.random.Generator(np.random.PCG64(seed)))
    c._moving_indices = np.arange(len(atoms)) if moving is None else np.asarray(moving)
    return c


class MirrorGenerator(np.random.Generator):
    """Records every array it hands out; in mirror mode hands the recorded arrays out again, negated (the draw that
    proposes the inverse deformation when the bounds are symmetric)."""

    def __init__(self, seed):
        super().__init__(np.random.PCG64(seed))
        self.tape = []
        self.mirror = False
        self.pos = 0

    def _out(self, value):
        if self.mirror:
            v = self.tape[self.pos]
            self.pos += 1
            return -v
        self.tape.append(np.array(value, copy=True))
        return value

    def uniform(self, *a, **k):
        return self._out(super().uniform(*a, **k))

    def random(self, *a, **k):   # (a draw on [0, 1) has no mirror image: cases using it are skipped by the caller)
        self.tape.append(None)
        return super().random(*a, **k)


def inverse_pairs_layer(rep, rs, tier):
    """A deformation and its inverse: the same operation is called twice, the second time with the first call's draws
    negated; the two gradients must be inverse to each other whatever the maximum strain (the statement's symmetry clause,
    draw by draw instead of in the mean), a shape deformation must keep the volume, and every gradient is symmetric
    positive definite."""
    from quansino.mc.contexts import DisplacementContext
    from quansino.operations.cell import AnisotropicDeformation, IsotropicDeformation, ShapeDeformation

    atoms = Atoms("Cu2", positions=[[1, 1, 1], [3, 2, 1]], cell=np.diag([7.0, 8.0, 9.0]), pbc=True)
    n = 0
    for mv in (0.003, 0.05, 0.3, 1.0, 2.0, 3.0):
        for kname, K in (("IsotropicDeformation", IsotropicDeformation), ("AnisotropicDeformation", AnisotropicDeformation), ("ShapeDeformation", ShapeDeformation)):
            for rep_i in range(4 if tier == "quick" else 40):
                g = MirrorGenerator(int(rs.randint(1, 2**31)))
                ctx = DisplacementContext(atoms, g)
                op = K(mv)
                try:
                    F1 = np.asarray(op.calculate(ctx), float)
                    if any(t is None for t in g.tape) or not g.tape:
                        continue
                    g.mirror = True
                    F2 = np.asarray(op.calculate(ctx), float)
                except Exception as ex:  # noqa: BLE001
                    rep.violation(f"raise:inverse-pair:{kname}:{type(ex).__name__}", f"{kname}({mv}).calculate raised {ex!r}", {"max_value": mv})
                    continue
                n += 1
                rep.count(("inverse-pair", kname, mv, rep_i), nontrivial=True)
                scale = max(1.0, np.abs(F1).max() * np.abs(F2).max())
                err = np.abs(F1 @ F2 - np.eye(3)).max() / scale
                if err > 1e-11:
                    rep.violation(f"inverse-pair:{kname}", f"{kname}(max_value={mv}): the gradient of a draw and the gradient of the negated draw are not inverse to each other: |F(S) F(-S) - 1| = {err:.2e} (relative)", {"max_value": mv, "F": F1.tolist(), "Finv": F2.tolist()})
                    break
                if kname == "ShapeDeformation" and abs(np.log(np.linalg.det(F1))) > 1e-10:
                    rep.violation("shape-not-volume-preserving", f"ShapeDeformation(max_value={mv}): ln det F = {np.log(np.linalg.det(F1)):.2e}", {"max_value": mv, "F": F1.tolist()})
                    break
                if np.abs(F1 - F1.T).max() > 1e-12 * max(1.0, np.abs(F1).max()) or not np.all(np.linalg.eigvalsh((F1 + F1.T) / 2) > 0):
                    rep.violation(f"contract:{kname}:symmetric-positive-definite", f"{kname}(max_value={mv}): the gradient is not symmetric positive definite", {"max_value": mv, "F": F1.tolist()})
                    break
    return n


def random_cell(rs):
    k = rs.randint(3)
    if k == 0:
        L = rs.uniform(4, 12)
        return np.eye(3) * L
    if k == 1:
        return np.diag(rs.uniform(4, 12, 3))
    return np.diag(rs.uniform(5, 12, 3)) + np.tril(rs.uniform(-2.5, 2.5, (3, 3)), -1)


def molecule(rs, cell):
    m = int(rs.randint(1, 6))
    sym = list(rs.choice(["H", "C", "O", "Cu", "Au"], size=m))
    pos = rs.rand(3) @ cell + rs.randn(m, 3) * 0.9
    a = Atoms("".join(sym), positions=pos, cell=cell, pbc=True)
    if rs.rand() < 0.5:
        a.set_masses(rs.uniform(1, 200, m))
    return a


def kabsch(P, Q):
    """rotation R (3x3) with Q_centered ~= P_centered @ R.T"""
    Pc, Qc = P - P.mean(0), Q - Q.mean(0)
    H = Pc.T @ Qc
    U, S, Vt = np.linalg.svd(H)
    d = np.sign(np.linalg.det(Vt.T @ U.T))
    D = np.diag([1, 1, d])
    return Vt.T @ D @ U.T


def rotvec(R):
    ang = math.acos(max(-1.0, min(1.0, (np.trace(R) - 1) / 2)))
    if ang < 1e-12:
        return np.zeros(3)
    ax = np.array([R[2, 1] - R[1, 2], R[0, 2] - R[2, 0], R[1, 0] - R[0, 1]]) / (2 * math.sin(ang))
    return ax * ang


def zmean(x):
    x = np.asarray(x, float)
    s = x.std(ddof=1)
    return 0.0 if s == 0 else float(x.mean() / (s / math.sqrt(len(x))))


def run(tier: str) -> int:
    from scipy import stats
    from scipy.linalg import logm

    from quansino.operations.cell import AnisotropicDeformation, IsotropicDeformation, ShapeDeformation
    from quansino.operations.displacement import Ball, Box, Rotation, Sphere, Translation, TranslationRotation

    rep = Report("C10", tier, "model_checking")
    warnings.simplefilter("ignore")
    rs = np.random.RandomState(rep.seed % 2**32)
    tmp = tempfile.mkdtemp(prefix="c10_")
    try:
        out = os.path.join(tmp, "masks.ndjson")
        r = run_tlc("Proposal", "MC_Proposal.cfg", workers=8, env={"PROP_OUT": out}, timeout=600)
        if not r.ok:
            if r.invariant_violated:
                rep.violation(f"model:{r.invariant_violated[0]}", f"TLC: {r.invariant_violated[0]} violated in Proposal.tla", {"tlc": r.out[-2000:]})
            else:
                rep.error(f"TLC failed on Proposal: {r.out[-1200:]}")
            return rep.finish()
        masks = [np.array(json.loads(l)["mask"], bool) for l in open(out)]
        # ---- (1) every mask x kind ---------------------------------------------------------------------
        atoms = Atoms("Cu2", positions=[[1, 1, 1], [3, 2, 1]], cell=np.diag([7.0, 8.0, 9.0]), pbc=True)
        kinds = {"IsotropicDeformation": IsotropicDeformation, "AnisotropicDeformation": AnisotropicDeformation, "ShapeDeformation": ShapeDeformation}
        nmask = 0
        for mi, m in enumerate(masks):
            for kname, K in kinds.items():
                seed = 1000 + mi
                raw = np.asarray(K(0.07).calculate(ctx_for(atoms, seed)))
                try:
                    Fm = np.asarray(K(0.07, mask=m.copy()).calculate(ctx_for(atoms, seed)))
                except Exception as ex:  # noqa: BLE001
                    rep.violation(f"raise:mask:{kname}:{type(ex).__name__}", f"{kname} with mask {m.tolist()} raised {ex!r}", {"mask": m.tolist()})
                    continue
                nmask += 1
                rep.count(("mask", mi, kname), nontrivial=not m.all())
                ok_out = np.array_equal(Fm[~m], np.eye(3)[~m])
                ok_in = np.array_equal(Fm[m], raw[m])
                if not ok_out:
                    rep.violation(f"mask:masked-out-not-identity:{kname}", f"{kname}: with mask {m.astype(int).tolist()} the gradient is not the identity in masked-out components: {Fm.tolist()}", {"mask": m.tolist()})
                elif not ok_in:
                    rep.violation(f"mask:unmasked-not-raw:{kname}", f"{kname}: with mask {m.astype(int).tolist()} an unmasked component differs from the unmasked gradient of the same draw", {"mask": m.tolist()})
                # the mask is a public attribute: re-assigning it on a live operation must take effect
                if mi % 16 == 3:
                    op = K(0.07)
                    op.calculate(ctx_for(atoms, seed))
                    op.mask = m.copy()
                    F2 = np.asarray(op.calculate(ctx_for(atoms, seed)))
                    if not np.array_equal(F2, Fm):
                        rep.violation(f"mask:reassigned-mask-ignored:{kname}", f"{kname}: a mask assigned after construction is not honoured", {"mask": m.tolist()})
        # ---- (2) contracts ---------------------------------------------------------------------------------------
        ncalls = 400 if tier == "quick" else 20000
        events = []
        for it in range(ncalls):
            cell = random_cell(rs)
            at = molecule(rs, cell)
            s = float(10 ** rs.uniform(-3, 1))
            seed = int(rs.randint(1, 2**31))
            ctx = ctx_for(at, seed)
            pos0 = at.get_positions()
            kind = it % 10
            name = ["Ball", "Sphere", "Box", "Translation", "Rotation", "TranslationRotation", "Composite", "IsotropicDeformation", "AnisotropicDeformation", "ShapeDeformation"][kind]
            preds = {}
            default_mask = True
            try:
                if kind <= 2:
                    op = [Ball, Sphere, Box][kind](s)
                    d = np.asarray(op.calculate(ctx), float)
                    preds["shape"] = d.shape == (1, 3)
                    preds["finite"] = bool(np.all(np.isfinite(d)))
                    nrm = float(np.linalg.norm(d))
                    preds["norm_le_step"] = nrm <= s * (1 + 1e-12)
                    preds["norm_eq_step"] = abs(nrm - s) <= 1e-12 * s
                    preds["components_within_step"] = bool(np.all(np.abs(d) <= s * (1 + 1e-12)))
                elif kind in (3, 4, 5):
                    op = [Translation, Rotation, TranslationRotation][kind - 3]()
                    d = np.asarray(op.calculate(ctx), float)
                    d = np.broadcast_to(d, pos0.shape)
                    new = pos0 + d
                    preds["shape"] = True
                    preds["finite"] = bool(np.all(np.isfinite(d)))
                    D0 = np.linalg.norm(pos0[:, None] - pos0[None], axis=2)
                    D1 = np.linalg.norm(new[:, None] - new[None], axis=2)
                    preds["rigid"] = bool(np.abs(D0 - D1).max() <= TOL * max(1.0, D0.max())) and (len(at) < 3 or np.linalg.det(kabsch(pos0, new)) > 0)
                    frac = np.linalg.solve(cell.T, new.mean(0))
                    preds["centroid_in_cell"] = bool(np.all(frac >= -TOL) and np.all(frac <= 1 + TOL))
                    mass = at.get_masses()
                    preds["com_kept"] = bool(np.abs((mass @ new) / mass.sum() - (mass @ pos0) / mass.sum()).max() <= TOL * max(1.0, np.abs(pos0).max()))
                elif kind == 6:
                    parts = [Ball(s), Box(s / 2), Sphere(s / 3)][: int(rs.randint(2, 4))]
                    comp = parts[0]
                    for p in parts[1:]:
                        comp = comp + p
                    if rs.rand() < 0.3:
                        comp = comp * 2
                        parts = parts * 2
                    d = np.asarray(comp.calculate(ctx), float)
                    ctx2 = ctx_for(at, seed)
                    want = sum(np.asarray(p.calculate(ctx2), float) for p in parts)
                    preds["finite"] = bool(np.all(np.isfinite(d)))
                    preds["sum_of_parts"] = bool(np.allclose(d, want, rtol=1e-14, atol=1e-300))
                else:
                    K = [IsotropicDeformation, AnisotropicDeformation, ShapeDeformation][kind - 7]
                    mv = float(10 ** rs.uniform(-3, -0.3))
                    default_mask = bool(rs.rand() < 0.6)
                    m = None if default_mask else (rs.rand(3, 3) < 0.6)
                    F = np.asarray(K(mv, mask=m).calculate(ctx), float)
                    mm = np.ones((3, 3), bool) if m is None else m
                    preds["finite"] = bool(np.all(np.isfinite(F)))
                    preds["masked_identity"] = bool(np.array_equal(F[~mm], np.eye(3)[~mm]))
                    diag = np.diag(F)[np.diag(mm)]
                    offm = mm & ~np.eye(3, dtype=bool)
                    preds["scalar_times_identity_on_mask"] = bool((len(diag) == 0 or np.ptp(diag) <= 1e-15 * abs(diag[0])) and np.all(F[offm] == 0))
                    preds["symmetric"] = bool(np.abs(F - F.T).max() <= 1e-12)
                    preds["positive_definite"] = bool(np.all(np.linalg.eigvalsh((F + F.T) / 2) > 0))
                    preds["unit_determinant"] = bool(abs(np.linalg.det(F) - 1) <= 1e-10)
            except Exception as ex:  # noqa: BLE001
                rep.violation(f"raise:{name}:{type(ex).__name__}", f"{name}.calculate raised {ex!r}", {"step": s, "cell": cell.tolist(), "natoms": len(at)})
                continue
            preds = {k: bool(v) for k, v in preds.items()}
            events.append({"op": name, "default_mask": bool(default_mask), "preds": preds, "info": {"step": s, "cell": cell.tolist(), "natoms": len(at), "seed": seed}})
            rep.count(("call", it))
        tf = os.path.join(tmp, "calls.json")
        json.dump([{k: v for k, v in e.items() if k != "info"} for e in events], open(tf, "w"))
        rt = run_tlc("Proposal_Trace", "Proposal_Trace.cfg", workers=1, env={"TRACE_FILE": tf}, timeout=1200)
        if rt.rc != 0:
            rep.error(f"TLC trace validation (Proposal_Trace) failed: {rt.out[-1200:]}")
        for line in rt.out.splitlines():
            if line.strip().startswith('"@@'):
                d = json.loads(json.loads(line.strip())[2:])
                e = events[d["idx"] - 1]
                for q in d["failing"]:
                    rep.violation(f"contract:{d['op']}:{q}", f"{d['op']}: a recorded call violates '{q}' of its contract ({e['info']})", {"event": e})
    finally:
        shutil.rmtree(tmp, ignore_errors=True)
    # ---- the default mask belongs to its operation: restricting one operation in place (op.mask[2, :] = False ...) must
    # not restrict any other default-mask operation, created before or after ------------------------------------------------
    from quansino.operations.cell import AnisotropicDeformation as _A, IsotropicDeformation as _I, ShapeDeformation as _S

    for K1 in (_I, _A, _S):
        before = K1(0.05)
        edited = K1(0.05)
        try:
            edited.mask[2, :] = False
            edited.mask[:, 2] = False
        except Exception:  # noqa: BLE001  (a read-only default mask would be fine too)
            pass
        after = K1(0.05)
        for tag, op in (("created-before", before), ("created-after", after)):
            cell = random_cell(rs)
            ctx = ctx_for(molecule(rs, cell), int(rs.randint(1, 2**31)))
            F = np.asarray(op.calculate(ctx), float)
            rep.count(("default-mask-shared", K1.__name__, tag))
            masked_like = bool(np.array_equal(F[2, :], np.eye(3)[2, :]) and np.array_equal(F[:, 2], np.eye(3)[:, 2]))
            if masked_like and not np.allclose(F, np.eye(3)):
                rep.violation(f"mask:default-mask-shared:{K1.__name__}", f"{K1.__name__}: after the mask of ONE default-mask operation was edited in place, another default-mask operation ({tag}) returns a gradient that is the identity in the third row and column: {F.tolist()}", {"op": K1.__name__, "which": tag})
    # ---- (2b) "for all generator states": long streams through the SAME operation objects -----------------------------
    nlong = 30000 if tier == "quick" else 400000
    cell = random_cell(rs)
    at1 = molecule(rs, cell)
    for opname, K in (("Ball", Ball), ("Sphere", Sphere), ("Box", Box)):
        s_ = float(10 ** rs.uniform(-2, 0))
        op = K(s_)
        ctx = ctx_for(at1, int(rs.randint(1, 2**31)))
        worst_ratio = 0.0
        for _ in range(nlong):
            d = np.asarray(op.calculate(ctx), float)
            nrm = float(np.linalg.norm(d))
            if opname == "Ball":
                bad = nrm > s_ * (1 + 1e-12)
            elif opname == "Sphere":
                bad = abs(nrm - s_) > 1e-12 * s_
            else:
                bad = bool(np.any(np.abs(d) > s_ * (1 + 1e-12)))
            worst_ratio = max(worst_ratio, nrm / s_)
            if bad or not np.all(np.isfinite(d)):
                rep.violation(f"contract:{opname}:long-stream", f"{opname}({s_:.4g}): after many proposals from one generator stream a proposal violates its bound (|d| / step = {nrm / s_:.6f}, d = {d.ravel().tolist()})", {"op": opname, "step": s_})
                break
        rep.count(("long-stream", opname), nontrivial=True)
    # ---- (2c) operation objects are used again and again: a proposal is a value; an earlier result never changes, and what
    # one call returns does not depend on what other operations were asked before ------------------------------------------
    nseq = 600 if tier == "quick" else 6000
    s_ = 0.1
    pool = {"rotation": Rotation(), "ball": Ball(s_), "box": Box(s_), "rotation+ball": Rotation() + Ball(s_), "ball+rotation": Ball(s_) + Rotation(), "translation_rotation": TranslationRotation()}
    pool["shared"] = pool["rotation"] + pool["ball"]  # a composite that shares its parts with the stand-alone entries
    kept = []  # (name, returned array, copy at return time)
    for it in range(nseq):
        name = list(pool)[int(rs.randint(len(pool)))]
        cell = random_cell(rs)
        at = molecule(rs, cell)
        if rs.rand() < 0.5:
            at = at[:1]  # a one-atom group
        seed = int(rs.randint(1, 2**31))
        ctx = ctx_for(at, seed)
        pos0 = at.get_positions()
        try:
            raw = pool[name].calculate(ctx)
        except Exception as ex:  # noqa: BLE001
            rep.violation(f"raise:sequence:{name}:{type(ex).__name__}", f"{name}.calculate raised {ex!r} in a sequence of calls on re-used operation objects", {"natoms": len(at)})
            continue
        d = np.broadcast_to(np.asarray(raw, float), pos0.shape)
        rep.count(("sequence", it))
        mass = at.get_masses()
        com_shift = float(np.abs((mass @ (pos0 + d)) / mass.sum() - (mass @ pos0) / mass.sum()).max())
        if name == "rotation" and com_shift > TOL * max(1.0, np.abs(pos0).max()):
            rep.violation("sequence:Rotation:com_kept", f"Rotation (object used {it} calls into a sequence with other operations, group of {len(at)} atom(s)) moved the centre of mass by {com_shift:.3e}", {"natoms": len(at), "call": it})
        if name in ("rotation+ball", "ball+rotation", "shared") and len(at) == 1 and float(np.linalg.norm(d[0])) > s_ * (1 + 1e-9):
            rep.violation("sequence:composite:one-atom-norm", f"{name} on a one-atom group (rotation part = zero displacement) returned |d| = {float(np.linalg.norm(d[0])):.6f} > ball radius {s_}", {"call": it})
        if name in ("ball", "box") and float(np.abs(d).max()) > s_ * (1 + 1e-12):
            rep.violation(f"sequence:{name}:bound", f"{name} exceeded its step size in a sequence of calls", {"call": it})
        for nm, arr, cp in kept:
            if not np.array_equal(np.asarray(arr, float), cp):
                rep.violation("sequence:earlier-result-changed", f"a displacement returned earlier by '{nm}' changed when '{name}' was called later (results are shared, not values)", {"earlier": nm, "later": name, "call": it})
                kept = []
                break
        kept = (kept + [(name, raw, np.array(raw, float, copy=True))])[-6:]
    # ---- composites whose parts all return one row per atom (groups of 2, 3, 4 atoms) and composites of deformations:
    # the composite is the SUM of what its parts return for the same draws ---------------------------------------------------
    for it in range(120 if tier == "quick" else 1500):
        cell = random_cell(rs)
        at = molecule(rs, cell)
        na = int(rs.choice([2, 3, 4]))
        if len(at) < na:
            at = at + at[: na - len(at)]
            at.positions[len(at) - 1] += 0.9
        at = at[:na]
        kind = it % 3
        if kind == 0:
            parts = [Rotation(), Rotation()]
        elif kind == 1:
            parts = [TranslationRotation(), Rotation()]
        else:
            parts = [IsotropicDeformation(0.03), ShapeDeformation(0.02)] if it % 2 else [AnisotropicDeformation(0.03), AnisotropicDeformation(0.02)]
        comp = parts[0] + parts[1]
        seed = int(rs.randint(1, 2**31))
        try:
            got = np.asarray(comp.calculate(ctx_for(at, seed)), float)
            ctx2 = ctx_for(at, seed)
            want = np.asarray(parts[0].calculate(ctx2), float) + np.asarray(parts[1].calculate(ctx2), float)
        except Exception as ex:  # noqa: BLE001
            rep.violation(f"raise:composite:{type(parts[0]).__name__}+{type(parts[1]).__name__}:{type(ex).__name__}", f"a composite of {type(parts[0]).__name__} and {type(parts[1]).__name__} raised {ex!r} on a group of {na} atoms", {"natoms": na})
            continue
        rep.count(("composite-sum", it))
        if got.shape != want.shape or not np.allclose(got, want, rtol=1e-12, atol=1e-12):
            rep.violation(f"composite-not-sum:{type(parts[0]).__name__}+{type(parts[1]).__name__}:natoms={na if kind < 2 else 0}", f"{type(parts[0]).__name__} + {type(parts[1]).__name__} on a group of {na} atoms does not return the sum of its parts (max deviation {float(np.abs(got - want).max()) if got.shape == want.shape else 'shape'})", {"natoms": na})
    rep.sample({"event": {k: v for k, v in events[0].items() if k != "info"}})
    rep.sample({"event": {k: v for k, v in events[7].items() if k != "info"}})
    # ---- (3) symmetry -----------------------------------------------------------------------------------------------
    N = 6000 if tier == "quick" else 60000
    worst = 0.0

    def flag(sig, what, z):
        nonlocal worst
        worst = max(worst, abs(z))
        if abs(z) > 6:
            rep.violation(sig, f"{what} (z = {z:.1f})", {"z": z})

    at1 = Atoms("Cu", positions=[[2, 2, 2]], cell=np.diag([7.0, 8.0, 9.0]), pbc=True)
    for name, op in (("Ball", Ball(0.7)), ("Sphere", Sphere(0.7)), ("Box", Box(0.7)), ("Ball+Box", Ball(0.4) + Box(0.2)), ("Sphere*2", Sphere(0.3) * 2)):
        ctx = ctx_for(at1, int(rs.randint(1, 2**31)))
        d = np.array([np.asarray(op.calculate(ctx)).ravel() for _ in range(N)])
        rep.count(("sym", name))
        for ax in range(3):
            flag(f"asymmetric:{name}:mean", f"{name}: mean displacement along axis {ax} is not zero", zmean(d[:, ax]))
        octant = (d[:, 0] > 0) * 4 + (d[:, 1] > 0) * 2 + (d[:, 2] > 0) * 1
        cnt = np.bincount(octant, minlength=8)
        for o in range(4):
            a, b = cnt[o], cnt[7 - o]
            flag(f"asymmetric:{name}:octants", f"{name}: octant {o} and its opposite are visited {a} vs {b} times", (a - b) / math.sqrt(max(a + b, 1)))
    # rotations of a rigid, asymmetric molecule
    mol = Atoms("HCO", positions=[[0.0, 0.0, 0.0], [1.1, 0.1, 0.0], [1.5, 1.2, 0.4]], cell=np.diag([9.0, 9.0, 9.0]), pbc=True)
    for name, op in (("Rotation", Rotation()), ("TranslationRotation", TranslationRotation())):
        ctx = ctx_for(mol, int(rs.randint(1, 2**31)))
        p0 = mol.get_positions()
        ws = []
        for _ in range(N // 2):
            dd = np.asarray(op.calculate(ctx))
            ws.append(rotvec(kabsch(p0, p0 + dd)))
        ws = np.array(ws)
        rep.count(("sym", name))
        for ax in range(3):
            flag(f"asymmetric:{name}:rotation-vector", f"{name}: the rotation vector has a non-zero mean along axis {ax}: a rotation and its inverse are not equally likely", zmean(ws[:, ax]))
    # deformations: log F vs -log F
    for name, op in (("IsotropicDeformation", IsotropicDeformation(0.08)), ("AnisotropicDeformation", AnisotropicDeformation(0.08)), ("ShapeDeformation", ShapeDeformation(0.08))):
        ctx = ctx_for(at1, int(rs.randint(1, 2**31)))
        Ls = np.array([np.real(logm(np.asarray(op.calculate(ctx)))) for _ in range(N // 4)])
        rep.count(("sym", name))
        for (i, j) in ((0, 0), (1, 1), (2, 2), (0, 1), (0, 2), (1, 2)):
            if Ls[:, i, j].std() > 0:
                flag(f"asymmetric:{name}:logF", f"{name}: log F[{i}{j}] has a non-zero mean: a deformation and its inverse are not equally likely", zmean(Ls[:, i, j]))
        if name == "ShapeDeformation" and np.abs(np.trace(Ls, axis1=1, axis2=2)).max() > 1e-10:
            rep.violation("shape-not-volume-preserving", "ShapeDeformation: log F is not traceless", {})
    npairs = inverse_pairs_layer(rep, rs, tier)
    rep.add(inverse_deformation_pairs=npairs)
    if npairs == 0:
        rep.error("inverse-pairs layer exercised nothing (the deformations no longer draw through rng.uniform?)")
    # translation: centroid uniform in fractional coordinates (triclinic cell, 3-atom group)
    cellt = np.array([[8.0, 0, 0], [2.0, 7.0, 0], [1.0, -1.5, 9.0]])
    mol2 = Atoms("HCO", positions=[[1.0, 1.0, 1.0], [2.1, 1.1, 1.0], [2.5, 2.2, 1.4]], cell=cellt, pbc=True)
    ctx = ctx_for(mol2, int(rs.randint(1, 2**31)))
    fr = np.array([np.linalg.solve(cellt.T, (mol2.positions + np.asarray(Translation().calculate(ctx))).mean(0)) for _ in range(N)])
    rep.count(("sym", "Translation"))
    bins = np.clip((fr * 4).astype(int), 0, 3)
    cnt = np.bincount(bins[:, 0] * 16 + bins[:, 1] * 4 + bins[:, 2], minlength=64)
    chi2 = float(((cnt - N / 64) ** 2 / (N / 64)).sum())
    p = float(stats.chi2.sf(chi2, 63))
    if p < 1e-9:
        rep.violation("translation-not-uniform", f"Translation: the centroid is not uniform in the cell (chi2 = {chi2:.1f} on a 4x4x4 grid, p = {p:.1e})", {})
    rep.add(states=r.distinct + rt.distinct, transitions=r.generated + rt.generated, traces_validated_against_impl=nmask + len(events), mask_cases=nmask, contract_calls=len(events), symmetry_samples=N, worst_symmetry_z=round(worst, 2), exhaustive=True,
            rule="(1) 512 masks x 3 deformation kinds (exact comparison with the unmasked gradient of the same draw; re-assigned masks); (2) random calls of all ten operation kinds with numeric predicates (norm / range at 1e-12 relative, rigidity / centre of mass / centroid at 1e-9, det at 1e-10) judged by TLC against the contracts of Proposal.tla; (3) inversion symmetry of displacement, rotation-vector and log-gradient distributions and uniformity of translations at |z| <= 6 / p >= 1e-9; non-trivial mask case = not the all-True mask")
    rep.assumptions += ["the real-valued clauses are decided by the numeric predicates of the projection with the stated tolerances; TLC decides the discrete mask semantics and which predicates an operation owes", "'as likely as its inverse' is tested distributionally (mean, paired octants), not proved"]
    return rep.finish()
