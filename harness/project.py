"""Projection of a running quansino Monte Carlo simulation onto the abstract
state of spec/QMC.tla, and the recorder that turns a run into a trace.

Nothing here is rounded: a token is a small integer interned from the raw
bytes (plus dtype) of an array row, so equal tokens <=> bit-identical data.
Energies are mapped to the configuration they are the from-scratch energy
of (independent calculator instance, rel. tol. 1e-9)."""

from __future__ import annotations

import copy

import numpy as np

NOLAB = -99
NOCFG = {"p": [], "c": 0}
UNKNOWN = {"p": [], "c": -1}


class Interner:
    def __init__(self):
        self.d: dict[bytes, int] = {}

    def tok(self, b: bytes) -> int:
        t = self.d.get(b)
        if t is None:
            t = len(self.d) + 1
            self.d[b] = t
        return t

    def row(self, arr, i) -> int:
        a = np.ascontiguousarray(arr[i])
        return self.tok(str(a.dtype).encode() + b"|" + a.tobytes())


def elementary_moves(move):
    """flatten a (possibly composite) move into its elementary move objects"""
    if hasattr(move, "moves") and not hasattr(move, "labels"):
        out = []
        for m in move.moves:
            out += elementary_moves(m)
        return out
    return [move]


def move_kind(m):
    from quansino.moves.cell import CellMove
    from quansino.moves.displacement import DisplacementMove, HamiltonianDisplacementMove
    from quansino.moves.exchange import ExchangeMove

    if isinstance(m, ExchangeMove):
        return "exch"
    if isinstance(m, DisplacementMove):
        return "disp"
    if isinstance(m, CellMove):
        return "cell"
    if isinstance(m, HamiltonianDisplacementMove):
        return "ham"
    return "user"


def nonzero_op(op):
    """the operation moves every atom it is applied to (almost surely)"""
    from quansino.operations.displacement import Ball, Box, Sphere

    if hasattr(op, "operations"):
        return all(nonzero_op(o) for o in op.operations)
    return isinstance(op, (Ball, Box, Sphere))


def composite_kind(move):
    from quansino.moves.composite import CompositeMove
    from quansino.moves.displacement import CompositeDisplacementMove
    from quansino.moves.exchange import CompositeExchangeMove

    if isinstance(move, CompositeExchangeMove):
        return "cexch"
    if isinstance(move, CompositeDisplacementMove):
        return "cdisp"
    if isinstance(move, CompositeMove):
        return "plain"
    return "single"


class Projector:
    def __init__(self, mc, fresh_calc_factory, window: int = 8):
        self.mc = mc
        self.I = Interner()
        self.fresh_factory = fresh_calc_factory
        self.window = window
        self.recent: list[tuple[dict, object]] = []  # (cfg struct, atoms copy)
        self.recent_mom: list = []
        self.efresh: dict[str, float] = {}
        # distinct elementary move objects of the table, in table order
        self.mids: dict[int, str] = {}
        self.mobjs: dict[str, object] = {}
        self.refresh_moves()

    # -- moves ---------------------------------------------------------
    def refresh_moves(self):
        for st in self.mc.moves.values():
            for m in elementary_moves(st.move):
                if id(m) not in self.mids:
                    mid = f"m{len(self.mids) + 1}"
                    self.mids[id(m)] = mid
                    self.mobjs[mid] = m

    def setup(self, extra=None):
        mc = self.mc
        ctxname = type(mc.context).__name__
        ctx = {"Context": "base", "DisplacementContext": "disp", "DeformationContext": "deform", "ExchangeContext": "exch",
               "HamiltonianDisplacementContext": "hdisp"}.get(ctxname, "base")
        moves = {}
        for name, st in mc.moves.items():
            el = elementary_moves(st.move)
            moves[name] = {"ctype": composite_kind(st.move), "elems": [self.mids[id(m)] for m in el],
                           "hasHam": any(move_kind(m) == "ham" for m in el)}
        mobj = {}
        for mid, m in self.mobjs.items():
            dl = getattr(m, "default_label", None)
            mobj[mid] = {"kind": move_kind(m), "nonzero": nonzero_op(getattr(m, "operation", None)), "defLabel": NOLAB if dl is None else int(dl),
                         "applyCons": bool(getattr(m, "apply_constraints", True)), "scale": bool(getattr(m, "scale_atoms", False))}
        tmpl = getattr(mc.context, "exchange_atoms", None)
        from quansino.utils.atoms import has_constraint

        s = {"driver": type(mc).__name__, "ctx": ctx, "moves": moves, "mobj": mobj, "tmplLen": 0 if tmpl is None else len(tmpl),
             "fixcom": bool(has_constraint(mc.atoms, "FixCom"))}
        if extra:
            s.update(extra)
        return s

    # -- configurations and energies -------------------------------------
    def cfg_of(self, atoms, remember=True):
        if atoms is None:
            return NOCFG
        c = {"p": [self.I.row(atoms.positions, i) for i in range(len(atoms))], "c": self.I.tok(b"cell|" + np.asarray(atoms.cell.array).tobytes() + atoms.pbc.tobytes())}
        if remember:
            key = repr(c) + atoms.numbers.tobytes().hex()
            hit = next((t for t in self.recent if t[0] == key), None)
            if hit is not None:
                # seen again: most recent again.  (Eviction is by last sight, not by first sight: the configuration the
                # context saved is seen at the end of every rejected trial and must stay the owner of the saved energy
                # however many trials are rejected in a row, see DESIGN.md Appendix A.)
                self.recent.remove(hit)
                self.recent.append(hit)
            else:
                self.recent.append((key, c, atoms.copy()))
                if len(self.recent) > self.window:
                    self.recent.pop(0)
        return c

    def remember_saved(self, atoms, ctx):
        """the configuration the context holds as its saved state (last_positions, last_cell) is a candidate owner of
        the saved energies for as long as the context holds it, whether or not the atoms were seen in it recently"""
        lp = getattr(ctx, "last_positions", None)
        if lp is None or np.shape(lp) != np.shape(atoms.positions):
            return
        if len(np.ravel(getattr(ctx, "_added_indices", []))) or len(np.ravel(getattr(ctx, "_deleted_indices", []))):
            return  # mid-exchange: the atoms are not the ones the saved positions belong to
        try:
            a = atoms.copy()
            lc = getattr(ctx, "last_cell", None)
            if lc is not None:
                a.set_cell(np.asarray(lc.array if hasattr(lc, "array") else lc), scale_atoms=False)
            a.positions = np.array(lp, dtype=float)
        except Exception:  # noqa: BLE001  (a saved state that cannot be put on the atoms owns nothing)
            return
        self.cfg_of(a)

    def fresh_energy(self, key, atoms, bare=False):
        """from-scratch energy of a configuration: what atoms.get_potential_energy() reports (calculator + the energy of
        restraints such as Hookean), or -- bare -- what the calculator alone holds in its results"""
        if key not in self.efresh:
            a = atoms.copy()
            a.calc = self.fresh_factory()
            try:
                tot = float(a.get_potential_energy())
                self.efresh[key] = (tot, float(a.get_potential_energy(apply_constraint=False)) if a.constraints else tot)
            except Exception:  # noqa: BLE001
                self.efresh[key] = (float("nan"), float("nan"))
            if len(self.efresh) > 4000:
                self.efresh.pop(next(iter(self.efresh)))
        return self.efresh[key][1 if bare else 0]

    def cfg_of_energy(self, e, prefer, field=None):
        """ALL configurations (among the recently seen ones, `prefer` first) whose
        from-scratch energy equals e: two configurations can have the same energy
        (atoms out of interaction range, volume-preserving shear), so ownership of
        an energy is a set; the trace specification accepts any member."""
        if e is None:
            return [NOCFG]
        try:
            e = float(e)
        except Exception:  # noqa: BLE001
            return [UNKNOWN]
        if np.isnan(e):
            return [NOCFG]
        order = sorted(self.recent, key=lambda t: 0 if t[1] == prefer else 1)
        out = []
        for key, c, at in order:
            f = self.fresh_energy(key, at, bare=field in ("calcRes", "lastRes"))   # results dictionaries hold the calculator's own energy
            if abs(f - e) <= 1e-9 * max(1.0, abs(e), abs(f)) and c not in out:
                out.append(c)
        return out or [UNKNOWN]

    def mom_id(self, momenta):
        if momenta is None:
            return []
        return [self.I.row(momenta, i) for i in range(len(momenta))]

    def kin_of(self, k, candidates, all_matches=False):
        """momentum tuple (among candidates) whose kinetic energy equals k"""
        if k is None or (isinstance(k, float) and np.isnan(k)):
            return []
        masses = self.mc.atoms.get_masses()
        for mom in candidates:
            if mom is not None and not any(m is mom or (np.shape(m) == np.shape(mom) and np.array_equal(m, mom)) for m in self.recent_mom):
                self.recent_mom.append(np.array(mom, copy=True))
                if len(self.recent_mom) > 6:
                    self.recent_mom.pop(0)
        out = []
        for mom in list(candidates) + self.recent_mom[::-1]:
            if mom is None or len(mom) != len(masses):
                continue
            kk = 0.5 * float(np.vdot(mom, mom / masses[:, None])) if len(mom) else 0.0
            if abs(kk - k) <= 1e-9 * max(1.0, abs(k)):
                ident = self.mom_id(mom)
                if ident not in out:
                    out.append(ident)
        if all_matches:
            # two momentum tuples can have the same kinetic energy (a trajectory in a force-free region conserves it):
            # ownership of a kinetic energy is a set, like ownership of a potential energy
            return out or [[-1]]
        return out[0] if out else [-1]

    # -- the state --------------------------------------------------------
    def usable(self):
        mc = self.mc
        atoms = mc.atoms
        calc = atoms.calc
        if calc is None:
            return True
        try:
            a2 = atoms.copy()
            a2.calc = copy.deepcopy(calc)
            if len(a2):
                p = a2.positions.copy()
                p[0] += np.array([1.234e-3, -0.7e-3, 0.4e-3])
                a2.positions = p
            e = float(a2.get_potential_energy())
            a3 = a2.copy()
            a3.calc = self.fresh_factory()
            f = float(a3.get_potential_energy())
            return bool(abs(e - f) <= 1e-9 * max(1.0, abs(e), abs(f)))
        except Exception:  # noqa: BLE001
            return False

    def state(self, extra_mom_candidates=()):
        mc = self.mc
        atoms = mc.atoms
        ctx = mc.context
        I = self.I
        n = len(atoms)
        arr = atoms.arrays
        mom = atoms.get_momenta()  # zeros when the array is absent: absent and all-zero momenta are the same state
        others = sorted(k for k in arr if k not in ("positions", "momenta", "numbers"))
        rows = []
        for i in range(n):
            rest = b"".join(k.encode() + b"=" + str(arr[k].dtype).encode() + np.ascontiguousarray(arr[k][i]).tobytes() + b";" for k in others)
            rows.append({"sp": int(arr["numbers"][i]), "pos": I.row(arr["positions"], i), "mom": I.row(mom, i), "rest": I.tok(rest)})
        self.remember_saved(atoms, ctx)
        cur = self.cfg_of(atoms)
        cons = []
        from ase.constraints import FixAtoms

        for c in atoms.constraints:
            if isinstance(c, FixAtoms):
                cons += [int(i) + 1 for i in c.index]
        calc = atoms.calc
        calc_atoms = getattr(calc, "atoms", None)
        if calc is None:
            calc_cfg, calc_res = NOCFG, [NOCFG]
        else:
            if calc_atoms is None:
                calc_cfg = NOCFG
            else:
                try:
                    changed = calc.check_state(atoms)
                except Exception:  # noqa: BLE001
                    changed = ["?"]
                calc_cfg = self.cfg_of(calc_atoms)
                if not changed:
                    calc_cfg = cur
                elif calc_cfg == cur:
                    calc_cfg = UNKNOWN  # same geometry but the calculator sees a difference (numbers, pbc, ...)
            res = getattr(calc, "results", None) or {}
            calc_res = self.cfg_of_energy(res.get("energy"), prefer=calc_cfg if calc_cfg not in (NOCFG, UNKNOWN) else cur, field="calcRes") if "energy" in res else [NOCFG]
        lp = getattr(ctx, "last_positions", None)
        last_pos = [] if lp is None else [I.row(lp, i) for i in range(len(lp))]
        lc = getattr(ctx, "last_cell", None)
        last_cell = 0 if lc is None else I.tok(b"cell|" + np.asarray(lc.array if hasattr(lc, "array") else lc).tobytes() + atoms.pbc.tobytes())
        lm = getattr(ctx, "last_momenta", None)
        last_mom = [] if lm is None else self.mom_id(lm)
        lastE = self.cfg_of_energy(getattr(ctx, "last_potential_energy", None), prefer=cur, field="lastE") if hasattr(ctx, "last_potential_energy") else [NOCFG]
        lres = getattr(ctx, "last_results", None) or {}
        last_res = self.cfg_of_energy(lres.get("energy"), prefer=cur, field="lastRes") if "energy" in lres else [NOCFG]
        lk = getattr(ctx, "last_kinetic_energy", None)
        last_k = self.kin_of(lk, [mom, lm, *extra_mom_candidates]) if lk is not None else []
        last_k_alt = self.kin_of(lk, [mom, lm, *extra_mom_candidates], all_matches=True) if lk is not None else []
        labels, presel = {}, {}
        for mid, m in self.mobjs.items():
            if hasattr(m, "labels"):
                labels[mid] = [int(x) for x in np.asarray(m.labels).ravel()]
                td = getattr(m, "to_displace_labels", None)
                tdel = getattr(m, "to_delete_label", None)
                tadd = getattr(m, "to_add_atoms", None)
                presel[mid] = [NOLAB if td is None else int(td), NOLAB if tdel is None else int(tdel), NOLAB if tadd is None else 1]
        tmpl = getattr(ctx, "exchange_atoms", None)
        if tmpl is None:
            tt = 0
        else:
            b = b"".join(k.encode() + str(v.dtype).encode() + np.ascontiguousarray(v).tobytes() for k, v in sorted(tmpl.arrays.items()))
            b += np.asarray(tmpl.cell.array).tobytes() + tmpl.pbc.tobytes() + repr(sorted(tmpl.info.items())).encode() + repr([type(c).__name__ for c in tmpl.constraints]).encode()
            tt = I.tok(b)
        return {
            "atoms": rows, "cell": cur["c"], "cons": sorted(cons),
            "lastPos": last_pos, "lastCell": last_cell, "lastMom": last_mom, "lastE": lastE, "lastK": last_k, "lastKalt": last_k_alt, "lastRes": last_res,
            "calcAtoms": calc_cfg, "calcRes": calc_res, "usable": self.usable(), "evals": int(getattr(calc, "ncalc", 0)),
            "added": [int(i) for i in np.asarray(getattr(ctx, "_added_indices", []), dtype=int).ravel()],
            "deleted": [int(i) for i in np.asarray(getattr(ctx, "_deleted_indices", []), dtype=int).ravel()],
            "pdelta": int(getattr(ctx, "particle_delta", 0)), "nexch": int(getattr(ctx, "number_of_exchange_particles", 0)),
            "labels": labels, "presel": presel, "tmpl": tt,
        }
