"""Engine checks shared by C03 C04 C05 C11 C12 (and the engine part of C14, C20):
record seeded traces of real runs, validate them with TLC against QMC_Trace.tla,
attribute every rejected event to a property and to a signature."""

from __future__ import annotations

import json
from collections import Counter

import qtrace
from common import Report
from tlc import run_tlc

C03_FIELDS = {"atoms", "cell", "cons", "added", "deleted", "pdelta", "presel", "C03_Restored", "C03_NoLeak", "C03_Pending"}
C04_FIELDS = {"lastE", "lastRes", "lastPos", "lastCell", "calcAtoms", "calcRes", "evals", "C04_Own", "C04_NoRecompute", "C04_OneEval", "C04_AtYield", "lastMom"}
C05_FIELDS = {"labels", "nexch", "tmpl", "C05_Aligned", "C05_Template"}


def attribute(f, trace):
    """-> set of property ids this rejected event belongs to"""
    what = set(f["what"])
    a, kind = f["a"], f["kind"]
    entry = trace["setup"]["moves"].get(f["name"], {"ctype": "single", "elems": []})
    kinds = {trace["setup"]["mobj"][m]["kind"] for m in entry["elems"]}
    props = set()
    if kind == "raise":
        exc = f["exc"]
        if exc.startswith("OverflowError"):
            props.add("C02")
        elif f["where"] == "evaluate":
            props.add("C04")
        elif exc.startswith("IndexError"):
            props.add("C05")
        else:
            props.add("C03")
        if f["where"] == "end" and "exch" in kinds:
            # the end-of-trial bookkeeping of an exchange trial (revert / save, label notification) failed: the system is
            # not restored (C03) and atoms, labels and the particle counter are left inconsistent (C05)
            props.update({"C03", "C05"})
        return props
    if kind == "protocol":
        return {"C20"}
    if kind in ("illegal-choice", "not-moved"):
        return {"C11"} if kinds <= {"disp"} else {"C05"}
    if "C12_Fixed" in what:
        props.add("C12")
    if a == "call":
        if what & {"atoms", "cell", "cons"}:
            props.add("C11" if kinds <= {"disp"} else "C03")
            # a mixed trial (exchange and displacement elements): the exchange bookkeeping is as specified and a displacement
            # element reported success, yet the atoms are not the specified ones -- the displacement moved other atoms
            if "disp" in kinds and not kinds <= {"disp"} and not (what & {"added", "deleted", "pdelta"}) and any(s["k"] == "disp" and s["ok"] for s in f["subs"]):
                props.add("C11")
        if "lastK" in what:
            props.add("C14")
        if what & {"added", "deleted", "pdelta"}:
            props.add("C05")
        if what & {"presel"}:
            props.add("C03")
        if what & C04_FIELDS:
            props.add("C04")
        if what & C05_FIELDS:
            props.add("C05")
        return props or {"C03"}
    rejected = f["verdict"] in ("rej", "none")
    if what & C03_FIELDS:
        props.add("C03" if rejected or a != "end" else "C05")
    if what & C04_FIELDS:
        props.add("C04")
    if what & {"lastK"}:
        props.add("C14")
    if what & C05_FIELDS:
        props.add("C05" if not rejected else "C03")
        if what & {"C05_Aligned", "C05_Template"}:
            props.add("C05")
    return props or {"C03"}


def last_call(trace, l):
    for e in reversed(trace["ev"][:l]):
        if e["a"] == "call":
            return e
    return None


def classify(f, trace, state, prop=None):
    """-> (signature, persistent).  A signature names a class of rejected event by
    where it happens and what is wrong; `state` carries per-trace memory (earlier
    findings in the same trace).  One rejected event can show two recorded findings at
    once (a rejected deletion that shifts the constraint AND leaves the neighbour list
    unusable): each property's check looks at its own part of the failing fields."""
    setup = trace["setup"]
    entry = setup["moves"].get(f["name"], {"ctype": "?", "elems": []})
    own = {"C03": C03_FIELDS, "C04": C04_FIELDS, "C05": C05_FIELDS}.get(prop)
    what = sorted(f["what"])
    if own and f["kind"] != "raise" and set(what) & own:
        what = sorted(set(what) & own)
    call = last_call(trace, f["l"])
    subs = call["subs"] if call else []
    nins = sum(1 for s in subs if s["ok"] and s.get("dir") == "ins" and s["k"] == "exch")
    ndel = sum(1 for s in subs if s["ok"] and s.get("dir") == "del" and s["k"] == "exch")
    ev = trace["ev"][f["l"] - 1]
    o = ev["s"]
    # ---- exact patterns of recorded findings -----------------------------
    if f["a"] == "end" and f["verdict"] == "acc" and f["kind"] == "step" and what == ["labels"] and nins >= 2:
        # all particles inserted in one accepted trial share one label
        pre = trace["ev"][f["l"] - 2]["s"]
        ok = True
        for m, lab in o["labels"].items():
            old = pre["labels"][m]
            new = lab[len(old):] if ndel == 0 else None
            if new is None or len(set(new)) != 1 or lab[:len(old)] != old:
                ok = False
        if ok:
            return "multi-insert-share-label", True
    if f["a"] == "end" and f["verdict"] == "rej" and set(what) <= {"cons", "C03_Restored"} and ndel >= 1:
        return "cons-shift-after-rejected-deletion", False
    if setup.get("calcStyle") == "internal" and setup["ctx"] == "exch":
        if f["a"] == "end" and f["verdict"] == "rej" and (nins or ndel) and not o["usable"] and set(what) <= {"C04_Own"}:
            state["calc_broken"] = True
            return "calc-unusable-after-rejected-exchange", True
    if entry["ctype"] == "cexch" and f["a"] == "call" and len(set(o["deleted"])) < len(o["deleted"]):
        return "cexch-delete-same-particle-twice", True
    # ---- generic signature ---------------------------------------------------
    kinds = "+".join(sorted({setup["mobj"][m]["kind"] for m in entry["elems"]}))
    if f["kind"] == "raise":
        exc = f["exc"].split(":")[0]
        return f"raise:{f['where']}:{exc}:{setup['family']}:{entry['ctype']}:{kinds}", True
    return f"{f['a']}:{f['kind']}:{','.join(what)}:{f['verdict']}:{setup['family']}:{entry['ctype']}:{kinds}", False


REPLAY_FIELDS = {
    "C03": {"pos", "cell", "cons", "lastPos", "presel"},
    "C04": {"lastE", "lastRes", "calcAtoms", "calcRes", "lastCell"},
    "C05": {"labels", "nexch", "added", "deleted", "pdelta", "n"},
}


def replay_layer(rep, prop, tier):
    """spec -> code: complete behaviours of MC_QMC.tla replayed into the real drivers (qreplay.py)"""
    import os
    import tempfile

    import qreplay

    tmp = tempfile.mkdtemp(prefix="qreplay_")
    out = os.path.join(tmp, "behaviours.out")
    n = nbad = 0
    try:
        rc = qreplay.generate(tier, out)
        if rc != 0:
            rep.error(f"TLC failed on MC_QMC_Replay (rc={rc})")
            return
        stride = 30 if tier == "quick" else 1
        for i, line in enumerate(open(out)):
            if not line.startswith('"@@') or i % stride:
                continue
            beh = json.loads(json.loads(line)[2:])
            n += 1
            try:
                r = qreplay.replay(beh)
            except Exception as ex:  # noqa: BLE001  (harness failure)
                rep.error(f"replay harness failed: {type(ex).__name__}: {ex}")
                break
            key = json.dumps([beh["driver"], [(h["a"], h["name"], h["verdict"], [(x["k"], x.get("dir"), x["lab"], x["ok"]) for x in h["subs"]]) for h in beh["hist"][1:]]])
            rep.count("replay:" + key, nontrivial=True)
            if n == 1:
                rep.sample({"replayed_behaviour": {"driver": beh["driver"], "actions": [(h["a"], h["name"], h["verdict"], h["subs"]) for h in beh["hist"][1:]]}})
            if not r:
                continue
            sig, msg, detail = r
            if sig == "replay:not-realisable":
                skipped_unrealisable = rep.coverage.get("behaviours_not_realisable", 0) + 1
                rep.coverage["behaviours_not_realisable"] = skipped_unrealisable
                continue
            fields = set(sig.split(":")[2].split(",")) if sig.startswith("replay:state:") else set()
            if sig.startswith("replay:state:") and not (fields & REPLAY_FIELDS[prop]):
                continue  # belongs to another property's check
            if sig.startswith("replay:state:cons:rej:GrandCanonical") and fields == {"cons"}:
                sig = "cons-shift-after-rejected-deletion"
            if sig.startswith("replay:state:labels:acc:GrandCanonical:cexch") and fields == {"labels"}:
                call = next(h for h in detail["trial"] if h["a"].startswith("called"))
                nins = sum(1 for s in call["subs"] if s["ok"] and s.get("dir") == "ins")
                pre, obs = detail["trial"][0]["s"]["labels"], detail["observed"]["labels"]
                if nins >= 2 and all(obs[m][:len(pre[m])] == pre[m] and len(obs[m]) == len(pre[m]) + nins * beh["tmplLen"] and len(set(obs[m][len(pre[m]):])) == 1 for m in pre):
                    sig = "multi-insert-share-label"  # exactly the recorded finding: the particles inserted by one trial share one label
            nbad += 1
            rep.violation(sig, f"{prop} (replay of a specification behaviour): {msg}", detail)
    finally:
        import shutil

        shutil.rmtree(tmp, ignore_errors=True)
    rep.add(behaviours_replayed=n)


FAMILIES = {
    "C03": ["canon", "gc", "gc", "npt", "hmc", "canon_noreset", "npt_noreset", "gc", "gcmix"],
    "C04": ["canon", "gc", "npt", "hmc", "gcmix"],
    "C05": ["gc", "gc", "gc", "gcdrain", "gcmix"],
    "C11": ["canon", "gc", "gc", "npt", "gcdrain", "gcmix", "gcmix", "gc"],
    "C12": ["canon", "canon", "hmc", "npt", "gc", "canon_noreset"],
    "C14": ["hmc"],
    "C20": ["canon", "gc", "npt", "hmc"],
}


def engine_check(prop, tier, level="model_checking", n_quick=240, n_thorough=2400, families=None, rep=None, finish=True):
    rep = rep or Report(prop, tier, level)
    # ---- the exhaustive engine model: QMC.tla's operators with existentially quantified arguments ------------
    mr = run_tlc("MC_QMC", "MC_QMC.cfg" if tier == "quick" else "MC_QMC_deep.cfg", workers=16, timeout=2400)
    if not mr.ok:
        if mr.invariant_violated:
            inv = mr.invariant_violated[0]
            owner = inv.split("_")[0]
            if owner == prop or owner not in ("C03", "C04", "C05", "C11", "C12"):
                rep.violation(f"model:{inv}", f"TLC: {inv} violated in MC_QMC.tla (the engine specification itself admits a bad state)", {"tlc": mr.out[-3000:]})
        else:
            rep.error(f"TLC failed on MC_QMC: {mr.out[-1500:]}")
    rep.add(states=mr.distinct, transitions=mr.generated, engine_model_states=mr.distinct)
    if prop in REPLAY_FIELDS and families is None:
        replay_layer(rep, prop, tier)
    n = n_quick if tier == "quick" else n_thorough
    fams = families or FAMILIES[prop]
    seeds = [(rep.seed * 1000 + i, fams[i % len(fams)]) for i in range(n)]
    if prop == "C05" and families is None:
        # on top of the sample (which stays what it was): runs with a displacement move that groups the particles coarsely
        seeds += [(rep.seed * 1000 + 500000 + i, "gccoarse") for i in range(n // 10)]
    traces = qtrace.record_batch(seeds)
    errs = [t for t in traces if "harness_error" in t]
    for e in errs[:3]:
        rep.error(f"harness failed to build/record scenario seed={e['seed']} family={e['family']}: {e['harness_error']}")
    good = [t for t in traces if "harness_error" not in t and len(t["ev"]) > 1]
    # a scenario whose run raises before anything happened exercises nothing: that is a failure of the scenario generator
    # (e.g. a constraint built with arguments ASE rejects), not a verdict -- and must not pass silently
    stillborn = [t for t in traces if "harness_error" not in t and len(t["ev"]) <= 1 and t["ev"] and t["ev"][0]["a"] == "raise"]
    for t in stillborn[:3]:
        rep.error(f"scenario seed={t['setup'].get('scenario_seed')} family={t['setup'].get('family')} raised before its first trial: {t['ev'][0].get('exc')}")
    # the specialised composite and its guarantees (C11: no particle displaced twice, count reported; C05: one direction,
    # no label deleted twice) are owed to every composite built with + and * from moves of one kind (Algebra.tla's Meaning):
    # the scenario grammar builds all its composites that way except the entry named "swap" (a hand-made generic one)
    for t in good:
        for name, entry in t["setup"]["moves"].items():
            kinds = {t["setup"]["mobj"][m]["kind"] for m in entry["elems"]}
            want = {"disp": "cdisp", "exch": "cexch"}.get(next(iter(kinds))) if len(kinds) == 1 else None
            if entry["ctype"] == "plain" and want and name not in ("swap", "del2") and prop in ({"C11"} if want == "cdisp" else {"C05"}):
                rep.violation(f"composite-type:{want}-built-as-plain", f"{prop}: the table entry '{name}' was built with + and * from {len(entry['elems'])} {next(iter(kinds))} moves but is a plain composite: its elements choose their particles independently (same particle twice, nothing reported)",
                              {"setup": t["setup"], "scenario_seed": t["setup"].get("scenario_seed"), "family": t["setup"].get("family")})
    fails, done, r = qtrace.validate(good)
    if r.rc != 0 or len(done) != len(good):
        rep.error(f"TLC trace validation failed rc={r.rc} done={len(done)}/{len(good)}: {r.out[-1500:]}")
    by_trace: dict[int, list] = {}
    for f in fails:
        by_trace.setdefault(f["tid"], []).append(f)
    judged = 0
    truncated = 0
    acts = Counter()
    for tid, t in enumerate(good, start=1):
        fl = sorted(by_trace.get(tid, []), key=lambda f: f["l"])
        stop_at = len(t["ev"]) + 1
        state: dict = {}
        trial_bad = None  # index of the yield that opened the trial in which a primary failure was seen
        for f in fl:
            if f["l"] >= stop_at:
                break
            # events of one trial: the first rejected event is primary, later ones in the same trial are consequences
            trial_start = max((i + 1 for i, e in enumerate(t["ev"][: f["l"]]) if e["a"] == "yield"), default=1)
            props = attribute(f, t)
            sig, persistent = classify(f, t, state, prop)
            if prop in props:
                consequence = trial_bad == trial_start and rep.findings.known(prop, sig) is None and not any(v["signature"] == sig for v in rep.violations)
                if not consequence:  # a later rejected event of the same trial is reported with the first one
                    rep.violation(sig, f"{prop}: event {f['l']} ({f['a']} of '{f['name']}', verdict {f['verdict']}) of a {t['setup']['driver']} run is not a behaviour of QMC.tla: {f['kind']} {sorted(f['what'])} {f['exc']}",
                                  {"trace": {"setup": t["setup"], "ev": t["ev"][max(0, f["l"] - 6): f["l"]]}, "failure": f, "scenario_seed": t["setup"].get("scenario_seed"), "family": t["setup"].get("family")})
            if prop in props:
                trial_bad = trial_start  # later rejected events of this trial that belong to this property are consequences
            if persistent:
                stop_at = f["l"] + 1
                truncated += 1
        upto = min(stop_at, len(t["ev"]) + 1) - 1
        judged += upto
        for e in t["ev"][:upto]:
            acts[e["a"] + ":" + e["verdict"]] += 1
        # distinct non-trivial: contains an accept and a reject/fail
        vs = {e["verdict"] for e in t["ev"][:upto] if e["a"] == "end"}
        key = json.dumps([t["setup"]["moves"], [(e["a"], e["verdict"], [(s["k"], s.get("dir"), s["ok"]) for s in e["subs"]]) for e in t["ev"][:upto]]])
        rep.count(key, nontrivial=("acc" in vs and ("rej" in vs or "none" in vs)))
        if tid <= 3:
            rep.sample({"setup": t["setup"], "events": [(e["a"], e["name"], e["verdict"], e["subs"]) for e in t["ev"][:12]]})
    # vacuity: every action kind must have been exercised
    need = ["yield:none", "call:none", "eval:acc", "eval:rej", "end:acc", "end:rej", "end:none"]
    missing = [a for a in need if acts[a] == 0]
    if missing:
        rep.error(f"vacuity: actions never exercised: {missing}")
    rep.add(states=r.distinct, transitions=r.generated, traces_validated_against_impl=len(good), events_judged=judged,
            traces_truncated_at_persistent_finding=truncated, action_counts=dict(acts), families=fams,
            rule="seeded real runs (drivers Canonical/HamiltonianCanonical/Isobaric/Isotension/GrandCanonical; EMT, LJ, harmonic, pair, table calculators; move tables from the grammar incl. composites built with + and *, vetoing check_move, pre-selections, FixAtoms/FixCom, extra per-atom arrays) recorded at every yield/move return/evaluate/end of trial and validated event by event by TLC against QMC_Trace.tla; distinct = distinct (move table, event/verdict/sub-outcome sequence); non-trivial = contains an accepted and a rejected or failed trial")
    rep.assumptions += ["observation from outside only: recording subclasses of the shipped moves, a delegating criteria wrapper, public attributes of context/calculator",
                        "energy ownership is decided by comparing with a from-scratch evaluation (independent calculator instance) at rel. tol. 1e-9; configurations with equal energies are admitted as a set",
                        "after a recorded finding that corrupts the run persistently the rest of that trace is not judged"]
    return rep.finish() if finish else rep


def replay(record):
    """./check <id> --replay <file>: re-record the scenario of an engine violation and validate it again"""
    rp = record.get("replay", {})
    seed, fam = rp.get("scenario_seed"), rp.get("family")
    if seed is None:
        print("this replay record carries no scenario seed (not an engine trace); re-run the check with VERIF_SEED =", record.get("seed"))
        return 0
    traces = qtrace.record_batch([(seed, fam)], procs=1)
    good = [t for t in traces if "harness_error" not in t]
    if not good:
        print("scenario could not be rebuilt:", traces[0].get("harness_error"))
        return 2
    fails, done, r = qtrace.validate(good)
    for f in fails:
        print(f"event {f['l']} ({f['a']} of '{f['name']}', verdict {f['verdict']}): {f['kind']} {sorted(f['what'])} {f['exc']}  -> {sorted(attribute(f, good[0]))}")
    print(f"{len(fails)} rejected events in {len(good[0]['ev'])} events of scenario seed={seed} family={fam}")
    return 1 if fails else 0
