"""C18 -- adaptive force-bias step length (spec/Adaptive.tla).

TLC checks range / anchors / monotonicity / history-independence on the exact
rational lattice and exports (i) the curve f(n) for both update functions and
(ii) every action sequence (set variance, re-assign bounds, update) up to the
length bound with the expected delta after each update; every sequence is
replayed on a real AdaptiveForceBias whose calculator publishes committee
arrays constructed to give exactly the variance n * reference."""

from __future__ import annotations

import json
import os
import shutil
import tempfile
import warnings
from fractions import Fraction

import numpy as np
from ase import Atoms
from ase.calculators.calculator import Calculator, all_changes

from common import Report
from tlc import run_tlc

REF = 0.01
UNIT = 0.01  # Angstrom per lattice unit of delta


class CommitteeCalc(Calculator):
    implemented_properties = ("energy", "forces")

    def __init__(self, **kw):
        super().__init__(**kw)
        self.nvar = None  # None: publish no committee data; scalar or (N,3) array of multiples of REF
        self.ref = REF    # the reference variance the multiples refer to (a large one needs a larger committee, below)

    def committee(self, natoms):
        if self.nvar is None:
            return {}
        nv = np.broadcast_to(np.asarray(self.nvar, float), (natoms, 3))
        base = np.ones((natoms, 3))
        x = nv * self.ref  # std / mean(|.|) = x / 1
        n0 = float(np.asarray(self.nvar, float).ravel()[0])
        if self.ref != REF and np.any(x > 0.9):
            # a two-member committee cannot have std / mean|.| above 1: m = c^2 + 1 members, one of them 1 and the others 0,
            # have the coefficient sqrt(m - 1) = c (integer c = n0 * ref, scalar variance only)
            c = int(round(n0 * self.ref))
            forces_comm = np.zeros((c * c + 1, natoms, 3))
            forces_comm[0] = 1.0
        else:
            forces_comm = np.stack([base - x, base + x])
        # energy scheme: std(energies) / natoms = n * ref  (scalar n only)
        energies = np.array([-n0 * self.ref * natoms, n0 * self.ref * natoms]) + 5.0
        return {"forces_comm": forces_comm, "energies": energies}

    def calculate(self, atoms=None, properties=("energy",), system_changes=all_changes):
        super().calculate(atoms, properties, system_changes)
        n = len(self.atoms)
        self.results = {"energy": 0.0, "forces": np.zeros((n, 3))}
        self.results.update(self.committee(n))

    def publish(self, atoms):
        for k in ("forces_comm", "energies"):
            self.results.pop(k, None)
        self.results.update(self.committee(len(atoms)))


def make(scheme, fn, lo, hi, ref=REF, symbols="Cu3"):
    from quansino.mc.fbmc import AdaptiveForceBias

    atoms = Atoms(symbols, positions=[[0, 0, 0], [2.5, 0, 0], [0, 2.5, 0]], cell=[9, 9, 9], pbc=True)
    atoms.calc = CommitteeCalc()
    atoms.calc.ref = ref
    with warnings.catch_warnings():
        warnings.simplefilter("ignore")
        afb = AdaptiveForceBias(atoms, min_delta=lo * UNIT, max_delta=hi * UNIT, temperature=300.0, scheme=scheme, reference_variance=ref, update_function=fn, seed=11)
    atoms.get_potential_energy()
    return afb


def close(got, want, tol=1e-12):
    got = np.asarray(got, float)
    return bool(np.all(np.abs(got - want) <= tol * max(1.0, abs(want)) + 1e-15))


def run(tier: str) -> int:
    rep = Report("C18", tier, "model_checking")
    rs = np.random.RandomState(rep.seed % 2**32)
    tmp = tempfile.mkdtemp(prefix="c18_")
    try:
        out = os.path.join(tmp, "ad.ndjson")
        env = {"AD_OUT": out}
        if tier == "thorough":
            env["AD_LEN"] = "4"
        r = run_tlc("Adaptive", "MC_Adaptive.cfg", workers=8, env=env, timeout=2400)
        if not r.ok:
            if r.invariant_violated:
                rep.violation(f"model:{r.invariant_violated[0]}", f"TLC: {r.invariant_violated[0]} violated in Adaptive.tla", {"tlc": r.out[-2000:]})
            else:
                rep.error(f"TLC failed on Adaptive: {r.out[-1500:]}")
            return rep.finish()
        rows = [json.loads(l) for l in open(out)]
    finally:
        shutil.rmtree(tmp, ignore_errors=True)
    warnings.simplefilter("ignore")
    nrep = 0
    # ---- the curve: every n, both functions, both schemes, scalar and per-coordinate -----------------
    for row in rows:
        if row["kind"] != "curve":
            continue
        c = row["c"]
        f = Fraction(c["fnum"], c["fden"])
        for scheme in ("forces", "energy"):
            for lo, hi, ref in ((1, 3, REF), (2, 2, REF), (0, 5, REF), (1, 3, 1.0), (0, 5, 2.0)):
                if ref != REF and c["n"] > 12:
                    continue  # (committee of n^2 ref^2 + 1 members)
                afb = make(scheme, c["fn"], lo, hi, ref)
                afb.atoms.calc.nvar = c["n"]
                afb.atoms.calc.publish(afb.atoms)
                want = float((Fraction(lo) + (hi - lo) * f) * Fraction(1, 100))
                nrep += 1
                rep.count(("curve", c["fn"], c["n"], scheme, lo, hi, ref))
                try:
                    afb.update_delta()
                except Exception as ex:  # noqa: BLE001
                    rep.violation(f"raise:update_delta:{scheme}:{type(ex).__name__}", f"update_delta raised {ex!r} at variance {c['n']} x reference", {"case": c})
                    continue
                if not close(afb.delta, want):
                    where = "zero" if c["n"] == 0 else ("reference" if c["n"] == 1 else "large")
                    rep.violation(f"curve:{c['fn']}:{scheme}:{where}" + ("" if ref == REF else ":large-reference"), f"{scheme}/{c['fn']}: reference variance {ref}, variance = {c['n']} x reference, bounds [{lo},{hi}]e-2: delta = {np.asarray(afb.delta).ravel()[:3]}, expected {want}", {"case": c, "lo": lo, "hi": hi})
    # ---- histories ------------------------------------------------------------------------------------
    ncase = 0
    for row in rows:
        if row["kind"] != "case":
            continue
        c = row["c"]
        ncase += 1
        scheme = ("forces", "energy")[ncase % 2]
        afb = make(scheme, c["fn"], c["lo"], c["hi"])
        exp = list(c["expect"])
        key = json.dumps([c["fn"], c["lo"], c["hi"], c["actions"], scheme])
        rep.count(key, nontrivial=len(c["actions"]) > 1)
        if ncase % 500 == 1:
            rep.sample(c)
        nrep += 1
        for a in c["actions"]:
            if a[0] == "var":
                afb.atoms.calc.nvar = None if a[1] == -1 else a[1]
                afb.atoms.calc.publish(afb.atoms)
            elif a[0] == "bounds":
                afb.min_delta = a[1] * UNIT
                afb.max_delta = a[2] * UNIT
            elif a[0] == "ref":
                afb.reference_variance = a[1] * REF     # (the committee keeps publishing multiples of the constructor's reference)
            else:
                num, den = exp.pop(0)
                if den == 0:     # a ratio off the integer lattice: the range is owed, the value is not decided here
                    try:
                        afb.update_delta()
                    except Exception as ex:  # noqa: BLE001
                        rep.violation(f"raise:update_delta:{type(ex).__name__}", f"update_delta raised {ex!r}", {"case": c})
                        break
                    dd = np.asarray(afb.delta, float)
                    if not (np.all(dd >= afb.min_delta - 1e-15) and np.all(dd <= afb.max_delta + 1e-15)):
                        rep.violation(f"history:{c['fn']}:{scheme}:out-of-range", f"after actions {c['actions']} delta = {dd.ravel()[:3]} outside [{afb.min_delta}, {afb.max_delta}]", {"case": c, "scheme": scheme})
                        break
                    continue
                want = num / den * UNIT
                try:
                    afb.update_delta()
                except Exception as ex:  # noqa: BLE001
                    rep.violation(f"raise:update_delta:{type(ex).__name__}", f"update_delta raised {ex!r}", {"case": c})
                    break
                if not close(afb.delta, want):
                    kinds = sorted({x[0] for x in c["actions"]})
                    rep.violation(f"history:{c['fn']}:{scheme}:{'+'.join(kinds)}", f"after actions {c['actions']} delta = {np.asarray(afb.delta).ravel()[:3]}, expected {want} (bounds and variance as last set)", {"case": c, "scheme": scheme})
                    break
    # ---- per-coordinate variances, off-lattice monotonicity and range ----------------------------------
    noff = 300 if tier == "quick" else 5000
    for k in range(noff):
        fn = ("tanh", "exp")[k % 2]
        lo = float(rs.uniform(0, 0.2))
        hi = lo + float(rs.choice([0.0, rs.uniform(0, 0.3)]))
        afb = make("forces", fn, 1, 2)
        afb.min_delta, afb.max_delta = lo, hi
        v = np.sort(10 ** rs.uniform(-6, 6, size=9))[::-1].reshape(3, 3) * (rs.rand(3, 3) < 0.9)
        afb.atoms.calc.nvar = v / 1.0
        afb.atoms.calc.publish(afb.atoms)
        afb.update_delta()
        d = np.asarray(afb.delta, float)
        rep.count(("off", k))
        tol = 4 * np.finfo(float).eps * max(1.0, hi)
        if d.shape != (3, 3) or not np.all(np.isfinite(d)) or d.min() < lo - tol or d.max() > hi + tol:
            rep.violation(f"range:{fn}:per-coordinate", f"per-coordinate delta outside [{lo}, {hi}] or wrong shape: {d}", {"lo": lo, "hi": hi, "var": v.tolist()})
            continue
        flatv, flatd = v.ravel(), d.ravel()
        order = np.argsort(flatv)
        if np.any(np.diff(flatd[order]) > tol):
            rep.violation(f"monotone:{fn}:per-coordinate", "delta increases with the variance", {"lo": lo, "hi": hi, "var": v.tolist(), "delta": d.tolist()})
        if np.any((flatv == 0) & (np.abs(flatd - hi) > tol)):
            rep.violation(f"max-at-zero:{fn}:per-coordinate", "zero variance does not give max_delta", {"lo": lo, "hi": hi})
    # ---- zero variance on a coordinate whose committee force is exactly zero (every member predicts 0: a coordinate on a
    # symmetry plane, a frozen coordinate): zero spread => max_delta there, the other coordinates unaffected -------------
    for fn in ("tanh", "exp"):
        afb = make("forces", fn, 1, 3)
        afb.atoms.calc.nvar = 1
        afb.atoms.calc.publish(afb.atoms)
        afb.atoms.calc.results["forces_comm"][:, 0, 0] = 0.0
        rep.count(("zero-force-coordinate", fn))
        try:
            afb.update_delta()
            d = np.asarray(afb.delta, float)
            if not (d.shape == (3, 3) and np.all(np.isfinite(d)) and close(d[0, 0], 0.03) and close(d[1:], 0.02) and close(d[0, 1:], 0.02)):
                rep.violation(f"curve:{fn}:forces:zero-force-coordinate", f"a coordinate on which every committee member predicts zero force (zero variance) gets delta {d[0, 0]}, expected max_delta 0.03 (the others: {d[1, 0]}, expected the midpoint 0.02)", {"fn": fn})
        except Exception as ex:  # noqa: BLE001
            rep.violation(f"raise:update_delta:zero-force-coordinate:{type(ex).__name__}", f"update_delta raised {ex!r} for a coordinate with zero committee force", {"fn": fn})
    # ---- committee members that disagree in SIGN on a coordinate: the coefficient is std / mean(|f|) -- for two members
    # (a, -b) that is exactly 1 -- never std / |mean f| ------------------------------------------------------------------
    for fn in ("tanh", "exp"):
        afb = make("forces", fn, 1, 3, 1.0)
        afb.atoms.calc.nvar = 0
        afb.atoms.calc.publish(afb.atoms)
        n_ = len(afb.atoms)
        fc = np.ones((2, n_, 3))
        fc[1] = -0.8
        fc[1, 0, 0] = -1.0  # (1, -1): the mean cancels exactly
        afb.atoms.calc.results["forces_comm"] = fc
        rep.count(("sign-disagreement", fn))
        afb.update_delta()
        if not close(afb.delta, 0.02):
            rep.violation(f"curve:{fn}:forces:members-disagree-in-sign", f"two committee members (1, -0.8) / (1, -1) have std / mean|f| = 1 = the reference: delta {np.asarray(afb.delta).ravel()[:3]}, expected the midpoint 0.02", {"fn": fn})
    # ---- energy scheme with realistic total energies: a large common offset and a small spread ---------------------------
    for fn in ("tanh", "exp"):
        for offset in (-113.72, -7468.9):
            for nn in (0, 1, 2):
                afb = make("energy", fn, 1, 3)
                afb.atoms.calc.nvar = nn
                afb.atoms.calc.publish(afb.atoms)
                n_ = len(afb.atoms)
                afb.atoms.calc.results["energies"] = (np.array([-nn * REF * n_, nn * REF * n_]) + offset) if nn else np.full(3, offset)  # nn = 0: three identical members
                rep.count(("energy-offset", fn, offset, nn))
                afb.update_delta()
                f_ = {0: 1.0, 1: 0.5}.get(nn)
                if f_ is None:
                    f_ = (1 - np.tanh(2 * np.arctanh(0.5))) if fn == "tanh" else 0.25
                want_ = 0.01 + 0.02 * f_
                # (np.std of numbers of size 1e4 with a spread of 1e-2 is good to ~1e-11 relative: delta to ~1e-13)
                if not close(afb.delta, want_, tol=5e-11):
                    rep.violation(f"curve:{fn}:energy:large-offset", f"committee energies {offset} -+ {nn} x reference x N: delta {np.asarray(afb.delta).ravel()[:1]}, expected {want_}", {"fn": fn, "offset": offset, "n": nn})
    # ---- the fallback: no committee data -> reference variance (midpoint), through step() as well -------
    for scheme in ("forces", "energy"):
        for fn in ("tanh", "exp"):
            # (atoms of different masses: what the driver shows as its delta after a step is the adapted delta, not the
            # mass-scaled step length of that step)
            afb = make(scheme, fn, 1, 3, symbols="CuAuH")
            afb.atoms.calc.nvar = None
            afb.atoms.calc.publish(afb.atoms)
            rep.count(("fallback", scheme, fn))
            afb.step()
            if not close(afb.delta, 0.02):
                rep.violation(f"fallback:{scheme}:{fn}", f"without committee data delta = {np.asarray(afb.delta).ravel()[:3]}, expected the midpoint 0.02", {})
            afb.atoms.calc.nvar = 0
            afb.step()  # the calculator published zero variance during the previous step's evaluation
            afb.step()
            if not close(afb.delta, 0.03):
                rep.violation(f"step-uses-published-variance:{scheme}:{fn}", f"zero committee variance through step(): delta = {np.asarray(afb.delta).ravel()[:3]}, expected max 0.03", {})
    # ---- per-coordinate variances through step() on atoms of different masses, with and without fictitious masses ----
    for fn in ("tanh", "exp"):
        for it in range(3 if tier == "quick" else 20):
            afb = make("forces", fn, 1, 3, symbols="HAuCu")
            if it % 2:
                afb.update_masses(np.array([3.0, 50.0, 7.0]))
            rsl = np.random.RandomState(rep.seed % 1000 + it)
            nn = rsl.choice([0.0, 1.0], size=(3, 3))
            afb.atoms.calc.nvar = nn
            afb.atoms.calc.publish(afb.atoms)
            rep.count(("step-mixed-masses", fn, it))
            for _ in range(3):
                afb.step()
                want_ = np.where(nn == 0, 0.03, 0.02)     # zero variance -> max; reference variance -> midpoint of [0.01, 0.03]
                if np.shape(afb.delta) != (3, 3) or not np.all(np.abs(np.asarray(afb.delta) - want_) <= 1e-12):
                    rep.violation(f"step-delta-mixed-masses:{fn}", f"forces scheme, atoms H/Au/Cu: after step() delta = {np.asarray(afb.delta).round(5).tolist()}, expected {want_.tolist()} (per-coordinate variances {nn.tolist()} x reference)", {"fn": fn, "nvar": nn.tolist()})
                    break
    rep.add(states=r.distinct, transitions=r.generated, traces_validated_against_impl=nrep, exhaustive=True, histories=ncase, offlattice=noff,
            rule="curve: every n in 0..18 (tanh) / 0..30 (exp) x 2 schemes x 3 bound pairs; histories: every sequence of {set variance n in {none,0,1,2,5,18}, re-assign bounds, update_delta} up to the length bound exported by TLC with the expected delta after each update; non-trivial = more than one action; plus random per-coordinate variances over 12 decades (range, monotonicity, max at zero) and the no-committee fallback through step()")
    rep.assumptions += ["committee arrays: two members (1 -+ n ref) for forces, (E -+ n ref N) for energies, giving variance coefficient exactly n ref up to rounding (tolerance 1e-12 relative)"]
    return rep.finish()
