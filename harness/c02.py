"""C02 -- acceptance decisions equal the textbook Metropolis rule.

spec/Accept.tla specifies the rule on an exact lattice (energies in units of
kT ln 2, u = 2^-(j+1/2)); TLC enumerates the lattice, checks the rule's
theorems and exports the expected verdict of every point; every point is
realised here on a real driver object (parameters installed through the
driver's property setters, *after* a different stale value), with the uniform
draw imposed through the simulation's own generator.  Off the lattice a float
mirror of the same log-rule (itself checked against TLC on the whole lattice)
judges random inputs with a guard band."""

from __future__ import annotations

import json
import math
import os
import shutil
import tempfile

import numpy as np
from ase import Atoms
from ase.calculators.calculator import Calculator, all_changes
from ase.cell import Cell
from ase.units import kB

from common import Report
from scripted_rng import ScriptedGenerator
from tlc import run_tlc

T0 = 1000.0
LN2 = math.log(2.0)


class FixedEnergy(Calculator):
    implemented_properties = ("energy", "forces")

    def __init__(self, **kw):
        super().__init__(**kw)
        self.value = 0.0

    def calculate(self, atoms=None, properties=("energy",), system_changes=all_changes):
        super().calculate(atoms, properties, system_changes)
        self.results = {"energy": float(self.value), "forces": np.zeros((len(self.atoms), 3))}


TMPL_MASS = {"Cu": 63.546, "CO": 12.011 + 15.999, "CO*": 24.0 + 32.0}


def thermal_wavelength(mass_amu, T):
    """Angstrom; independent of quansino (scipy CODATA constants)"""
    from scipy import constants as C

    m = mass_amu * C.atomic_mass
    return C.h / math.sqrt(2 * math.pi * m * C.k * T) * 1e10


def shear_matrix(g):
    return np.array([[1.0, g, 0.0], [0.0, 1.0, 0.0], [0.0, 0.0, 1.0]])


class Rig:
    """one reusable simulation object per ensemble"""

    def __init__(self):
        from quansino.mc.canonical import Canonical, HamiltonianCanonical
        from quansino.mc.gcmc import GrandCanonical
        from quansino.mc.isobaric import Isobaric
        from quansino.mc.isotension import Isotension
        from quansino.moves.cell import CellMove
        from quansino.moves.displacement import DisplacementMove, HamiltonianDisplacementMove
        from quansino.moves.exchange import ExchangeMove

        self.rng = ScriptedGenerator(7)
        self.sims = {}

        def atoms(n):
            a = Atoms(f"Cu{n}" if n else "", positions=(np.arange(3 * n).reshape(n, 3) * 1.1 + 1.0) % 9.0, cell=[10, 10, 10], pbc=True)
            a.calc = FixedEnergy()
            return a

        mc = Canonical(atoms(2), temperature=777.0, seed=3)
        mc.add_move(DisplacementMove([0, 1]))
        self.sims["canonical"] = mc
        mc = HamiltonianCanonical(atoms(2), temperature=777.0, seed=3)
        mc.add_move(HamiltonianDisplacementMove())
        self.sims["hamiltonian"] = mc
        for n in (0, 1, 2, 3, 2047):
            mc = Isobaric(atoms(n), temperature=777.0, pressure=0.5, max_cycles=1, seed=3)
            mc.add_move(CellMove())
            self.sims[("isobaric", n)] = mc
            mc = Isotension(atoms(n), temperature=777.0, pressure=0.5, max_cycles=1, seed=3)
            mc.add_move(CellMove())
            self.sims[("isotension", n)] = mc
        for tmpl in ("Cu", "CO", "CO*"):
            # "CO*": the same species with masses set by the user (here twice the natural ones): the thermal wavelength follows the masses the
            # exchange species really carries
            t = Atoms(tmpl.rstrip("*"), positions=[[0, 0, 0.6 * i] for i in range(len(tmpl.rstrip("*")) if tmpl != "Cu" else 1)])
            if tmpl == "CO*":
                t.set_masses([24.0, 32.0])
            mc = GrandCanonical(atoms(2), exchange_atoms=t, temperature=777.0, chemical_potential=9.9, number_of_exchange_particles=55, max_cycles=1, seed=3)
            mc.add_move(ExchangeMove([0, 1]))
            self.sims[("gc", tmpl)] = mc
        for mc in self.sims.values():
            mc._rng = self.rng
            mc.context.rng = self.rng

    def criteria(self, mc):
        return mc.moves["default"].criteria

    # every realisation first installs STALE parameters, then the intended ones, through the
    # public setters of the driver: the verdict must follow what was set last
    def evaluate(self, ens, *, T, u, dE, dK=0.0, n=1, cell_old=None, cell_new=None, P=0.0, S=None, mu=0.0, V=None, N=0, tmpl="Cu", install=True):
        """install=False: a FURTHER trial on the simulation as configured by the previous call (temperature, pressure,
        stress, chemical potential, particle number and volume are NOT set again)"""
        self.rng.scripts.clear()
        self.rng.script("random", float(u))
        self.rng.script("uniform", float(u))  # (whichever way the criteria asks its generator for the uniform number)
        E0 = 1.2345
        if ens == "canonical":
            mc = self.sims["canonical"]
        elif ens == "hamiltonian":
            mc = self.sims["hamiltonian"]
        elif ens in ("isobaric", "isotension"):
            mc = self.sims[(ens, n)]
        else:
            mc = self.sims[("gc", tmpl)]
        ctx = mc.context
        atoms = mc.atoms
        if install:
            mc.temperature = 31.4159  # stale
            mc.temperature = T
        ctx.last_potential_energy = E0
        atoms.calc.value = E0 + dE
        atoms.calc.reset()
        if ens == "hamiltonian":
            K0 = abs(dK) + 2 * kB * T
            ctx.last_kinetic_energy = K0
            p = np.zeros((len(atoms), 3))
            p[0, 0] = math.sqrt(2 * atoms.get_masses()[0] * (K0 + dK))
            atoms.set_momenta(p)
        if ens in ("isobaric", "isotension"):
            if install:
                mc.pressure = -123.0  # stale
                mc.pressure = P
            atoms.set_cell(cell_old, scale_atoms=False)
            ctx.last_cell = atoms.get_cell()
            atoms.set_cell(cell_new, scale_atoms=False)
            if ens == "isotension" and install:
                mc.external_stress = np.full((3, 3), 7.7)  # stale
                mc.external_stress = np.array(S, float)
        if ens in ("insertion", "deletion") and install:
            mc.chemical_potential = -55.5  # stale
            mc.chemical_potential = mu
            mc.number_of_exchange_particles = 99  # stale
            mc.number_of_exchange_particles = N
            mc.accessible_volume = 1e-3  # stale
            mc.accessible_volume = V
        if ens in ("insertion", "deletion"):
            ctx.particle_delta = 1 if ens == "insertion" else -1
        crit = self.criteria(mc)
        self.rng.log.clear()
        v = crit.evaluate(ctx)
        used = [l for l in self.rng.log if l[0] in ("random", "uniform")]
        self.rng.log.clear()
        return bool(v), crit, len(used)


def lattice_inputs(p, variant):
    """float inputs realising lattice point p (variant selects cell shape / stress decoration / species)"""
    T = T0 * p["t"]
    eps = kB * T * LN2
    u = 2.0 ** -(p["j"] + 0.5)
    kw = {"T": T, "u": u, "dE": p["e"] * eps}
    ens = p["ens"]
    if ens == "hamiltonian":
        kw["dK"] = p["k"] * eps
    if ens in ("isobaric", "isotension"):
        lam = 2.0 ** (p["m"] / 3.0)
        base = np.diag([9.0, 10.0, 11.0]) if variant % 2 == 0 else np.array([[9.0, 0.0, 0.0], [2.5, 10.0, 0.0], [1.0, -2.0, 11.0]])
        if (p["j"] + p["m"] + variant) % 3 == 0:
            base = base[[1, 0, 2]]  # a left-handed cell (negative determinant): legal, its volume is |det|
        gamma = 0.0 if variant % 4 < 2 else 0.3
        F = lam * shear_matrix(gamma)
        new = F @ base  # quansino's convention: cell' = F @ cell
        V0 = abs(np.linalg.det(base))
        V1 = abs(np.linalg.det(new))
        kw.update(n=p["n"], cell_old=base, cell_new=new)
        kw["P"] = (p["pdv"] * eps / (V1 - V0)) if p["m"] != 0 else 0.0173
        if ens == "isotension":
            P = kw["P"]
            A01 = 0.0 if (p["m"] == 0 or variant % 8 < 4) else 0.004  # antisymmetric decoration
            Aanti = np.zeros((3, 3))
            Aanti[0, 1], Aanti[1, 0] = A01, -A01
            # strain (as the package defines and publishes it): 1/2 (F^T - 1)
            strain = 0.5 * (F.T - np.eye(3))
            if p["m"] != 0:
                sigma = (p["w"] * eps / V0 - np.trace(Aanti @ strain)) / np.trace(strain)
            else:
                sigma = 0.0
            kw["S"] = P * np.eye(3) + sigma * np.eye(3) + Aanti
            kw["_strain"] = strain
            kw["_V0"] = V0
    if ens in ("insertion", "deletion"):
        tmpl = ["Cu", "CO", "CO*"][(variant + p["j"]) % 3]
        mass = TMPL_MASS[tmpl]
        lam3 = thermal_wavelength(mass, T) ** 3
        N = p["n"]
        kw.update(mu=p["mu"] * eps, N=N, tmpl=tmpl)
        kw["V"] = (2.0 ** p["a"]) * lam3 * ((N + 1) if ens == "insertion" else N)
    return kw


def mirror_loga(ens, *, T, dE, dK=0.0, n=1, V0=None, V1=None, P=0.0, work=0.0, mu=0.0, V=None, N=0, mass=None):
    """natural log of A, written in log form (never exponentiates)"""
    kT = kB * T
    if ens == "canonical":
        return -dE / kT
    if ens == "hamiltonian":
        return -(dE + dK) / kT
    if ens == "isobaric":
        return -(dE + P * (V1 - V0)) / kT + (n + 1) * math.log(V1 / V0)
    if ens == "isotension":
        return -(dE + P * (V1 - V0) + work) / kT + (n + 1) * math.log(V1 / V0)
    lam3 = thermal_wavelength(mass, T) ** 3
    if ens == "insertion":
        return math.log(V / (lam3 * (N + 1))) + (mu - dE) / kT
    return math.log(lam3 * N / V) + (-mu - dE) / kT


class _Between:
    """user criteria around the shipped one: scripts the uniform so that the verdict tells which reference cell was used"""

    def __init__(self, inner, box):
        self.inner, self.box = inner, box

    def evaluate(self, context):
        b = self.box
        atoms = context.atoms
        V1 = abs(np.linalg.det(atoms.cell.array))
        kT = kB * b["T"]
        la_true = -(b["P"] * (V1 - b["V_start"])) / kT + (b["n"] + 1) * math.log(V1 / b["V_start"])
        la_stale = -(b["P"] * (V1 - b["V_built"])) / kT + (b["n"] + 1) * math.log(V1 / b["V_built"])
        b.update(la_true=la_true, la_stale=la_stale, V1=V1)
        lo, hi = sorted((min(0.0, la_true), min(0.0, la_stale)))
        if hi - lo < 1e-6 or lo < -600.0:
            # (below about -700 both exp(ln A) and the scripted uniform underflow to 0.0: nothing can be decided)
            b["decidable"] = False
            return self.inner.evaluate(context)
        b["decidable"] = True
        lu = 0.5 * (lo + hi)
        context.rng.scripts.clear()
        context.rng.script("random", math.exp(lu))
        context.rng.script("uniform", math.exp(lu))
        b["want"] = lu < min(0.0, la_true)
        b["got"] = bool(self.inner.evaluate(context))
        return b["got"]

    def to_dict(self):
        return self.inner.to_dict()


def first_trial_reference(rep, rs, ncases):
    """An Isobaric / Isotension simulation is built, the user then changes the cell of the same atoms (a pre-strain), and
    runs: the first cell trial must be judged against the volume at the start of the run."""
    from quansino.mc.isobaric import Isobaric
    from quansino.mc.isotension import Isotension
    from quansino.moves.cell import CellMove
    from quansino.operations.cell import IsotropicDeformation

    done = 0
    for k in range(ncases):
        n = int(rs.randint(1, 4))
        T = float(rs.choice([300.0, 2000.0]))
        P = float(rs.choice([0.05, 0.3]))
        a = Atoms(f"Cu{n}", positions=rs.rand(n, 3) * 5 + 1, cell=np.diag(rs.uniform(7, 9, 3)), pbc=True)
        a.calc = FixedEnergy()
        a.calc.value = 0.0
        cls = Isobaric if k % 2 == 0 else Isotension
        kw = {"external_stress": P * np.eye(3)} if cls is Isotension else {}
        decided = False
        for attempt in range(6):
            mc = cls(a.copy(), temperature=T, pressure=P, max_cycles=1, seed=int(rs.randint(1, 10**6)), **kw)
            mc.atoms.calc = FixedEnergy()
            mc.atoms.calc.value = 0.0
            V_built = abs(np.linalg.det(mc.atoms.cell.array))
            box = {"T": T, "P": P, "n": n, "V_built": V_built}
            mc.add_move(CellMove(IsotropicDeformation(0.05)), name="cell")
            mc.moves["cell"].criteria = _Between(mc.moves["cell"].criteria, box)
            g = ScriptedGenerator(int(rs.randint(1, 10**6)))
            mc._rng = g
            mc.context.rng = g
            # the user pre-strains the system between construction and run
            mc.atoms.set_cell(mc.atoms.cell.array * float(rs.choice([0.9, 1.12])), scale_atoms=True)
            box["V_start"] = abs(np.linalg.det(mc.atoms.cell.array))
            try:
                mc.run(1)
            except Exception as ex:  # noqa: BLE001
                rep.violation(f"raise:first-trial:{type(ex).__name__}", f"{cls.__name__}: run after a manual change of the cell raised {ex!r}", {"driver": cls.__name__})
                decided = True
                break
            if box.get("decidable"):
                decided = True
                done += 1
                rep.count(("first-trial", k), nontrivial=True)
                if box["got"] != box["want"]:
                    rep.violation(f"verdict:{'isobaric' if cls is Isobaric else 'isotension'}:first-trial-after-cell-change",
                                  f"{cls.__name__}: the cell was changed by hand between construction (V = {box['V_built']:.2f}) and run (V = {box['V_start']:.2f}); the first trial (V' = {box['V1']:.2f}) got verdict {box['got']}, the rule with the volume at the start of the run says {box['want']} (ln A = {box['la_true']:.4f}; with the construction-time volume {box['la_stale']:.4f})",
                                  {"driver": cls.__name__, **{kk: (float(v) if isinstance(v, (int, float, np.floating)) else v) for kk, v in box.items()}})
                break
        if not decided:
            rep.count(("first-trial-undecidable", k))
    return done


def default_criteria_layer(rep):
    """DefaultCriteria.tla: which acceptance rule a move gets when none is passed.  Tables and class relation are
    extracted from the package, TLC checks that first-match is most-specific-match, and add_move is replayed for every
    driver x shipped move class."""
    import inspect

    import quansino.moves as qm
    from quansino.mc.canonical import Canonical, HamiltonianCanonical
    from quansino.mc.core import MonteCarlo
    from quansino.mc.gcmc import GrandCanonical
    from quansino.mc.isobaric import Isobaric
    from quansino.mc.isotension import Isotension
    from quansino.moves.cell import CellMove
    from quansino.moves.composite import CompositeMove
    from quansino.moves.core import BaseMove
    from quansino.moves.displacement import CompositeDisplacementMove, DisplacementMove, HamiltonianDisplacementMove
    from quansino.moves.exchange import CompositeExchangeMove, ExchangeMove

    drivers = {"MonteCarlo": MonteCarlo, "Canonical": Canonical, "HamiltonianCanonical": HamiltonianCanonical, "Isobaric": Isobaric, "Isotension": Isotension, "GrandCanonical": GrandCanonical}
    classes = {c.__name__: c for c in (BaseMove, DisplacementMove, HamiltonianDisplacementMove, ExchangeMove, CellMove, CompositeMove, CompositeDisplacementMove, CompositeExchangeMove)}
    for D in drivers.values():
        for k in D.default_criteria:
            classes.setdefault(k.__name__, k)
    for _, obj in inspect.getmembers(qm, inspect.isclass):
        if issubclass(obj, (BaseMove, CompositeMove)):
            classes.setdefault(obj.__name__, obj)
    names = sorted(classes)
    q = lambda x: '"' + x + '"'  # noqa: E731
    lines = ["---- MODULE DefaultCriteriaData ----", "\\* generated from the package at check time (harness/c02.py)", "EXTENDS Sequences", "",
             "Drivers == {" + ", ".join(q(d) for d in drivers) + "}", "MoveClasses == {" + ", ".join(q(n) for n in names) + "}",
             "Sub == {" + ", ".join(f"<<{q(a)}, {q(b)}>>" for a in names for b in names if issubclass(classes[a], classes[b])) + "}", "Table(d) =="]
    cases = []
    for i, (dn, D) in enumerate(drivers.items()):
        tab = ", ".join(f"[cls |-> {q(k.__name__)}, crit |-> {q(v.__name__)}]" for k, v in D.default_criteria.items())
        lines.append(("    CASE " if i == 0 else "      [] ") + f"d = {q(dn)} -> <<{tab}>>")
    lines += ["====", ""]
    tmp = tempfile.mkdtemp(prefix="c02dc_")
    try:
        from common import SPEC

        for f in ("DefaultCriteria.tla", "MC_DefaultCriteria.cfg"):
            shutil.copy(SPEC / f, tmp)
        open(os.path.join(tmp, "DefaultCriteriaData.tla"), "w").write("\n".join(lines))
        if os.environ.get("VERIF_DUMP_DATA"):  # refresh the committed copy (only used by setup.sh's SANY pass)
            open(SPEC / "DefaultCriteriaData.tla", "w").write("\n".join(lines))
        r = run_tlc("DefaultCriteria", "MC_DefaultCriteria.cfg", workers=1, timeout=600, cwd=tmp)
    finally:
        shutil.rmtree(tmp, ignore_errors=True)
    if not r.ok:
        if r.invariant_violated:
            rep.violation(f"model:default-criteria:{r.invariant_violated[0]}", f"TLC: {r.invariant_violated[0]} violated in DefaultCriteria.tla: in some driver's table an entry is shadowed by an earlier entry of a base class, so a move would be judged by the rule of its base class", {"tlc": r.out[-2500:]})
        else:
            rep.error(f"TLC failed on DefaultCriteria: {r.out[-1200:]}")
        return 0
    for line in r.out.splitlines():
        line = line.strip()
        if line.startswith('"@@'):
            cases.append(json.loads(json.loads(line)[2:]))

    def instance(cn):
        d = lambda: DisplacementMove([0, 1])  # noqa: E731
        e = lambda: ExchangeMove([0, 1])  # noqa: E731
        return {"DisplacementMove": d, "ExchangeMove": e, "HamiltonianDisplacementMove": lambda: HamiltonianDisplacementMove(), "CellMove": lambda: CellMove(),
                "CompositeMove": lambda: CompositeMove([d(), CellMove()]), "CompositeDisplacementMove": lambda: d() + d(), "CompositeExchangeMove": lambda: e() + e(),
                "BaseMove": lambda: BaseMove()}.get(cn, lambda: classes[cn]())()

    n = 0
    for case in cases:
        dn, cn, want = case["driver"], case["cls"], case["crit"]
        try:
            mv = instance(cn)
        except Exception:  # noqa: BLE001  (abstract or needs arguments the harness does not know: not replayed)
            continue
        crit_cls = next((v for k, v in drivers[dn].default_criteria.items() if v.__name__ == want), None)
        if crit_cls is not None and inspect.isabstract(crit_cls):
            continue  # the base driver's table names the abstract BaseCriteria: a placeholder, nothing can be built from it
        a = Atoms("Cu2", positions=[[1, 1, 1], [3, 3, 3]], cell=[8, 8, 8], pbc=True)
        kw = {"MonteCarlo": {}, "Canonical": {"temperature": 300.0}, "HamiltonianCanonical": {"temperature": 300.0}, "Isobaric": {"temperature": 300.0, "pressure": 0.0},
              "Isotension": {"temperature": 300.0, "pressure": 0.0}, "GrandCanonical": {"temperature": 300.0, "chemical_potential": 0.0, "number_of_exchange_particles": 2, "exchange_atoms": Atoms("Cu", positions=[[0, 0, 0]])}}[dn]
        mc = drivers[dn](a, **kw)
        n += 1
        rep.count(("default-criteria", dn, cn), nontrivial=want != "none")
        try:
            mc.add_move(mv)
            got = type(mc.moves["default"].criteria).__name__
        except ValueError:
            got = "none"
        except Exception as ex:  # noqa: BLE001
            got = f"raised {type(ex).__name__}"
        if got != want:
            rep.violation(f"default-criteria:{dn}:{cn}", f"{dn}.add_move({cn}) without a criteria uses {got}; the table's most specific entry is {want}", {"driver": dn, "move": cn})
    return n


class _Judge:
    """user criteria around the shipped grand-canonical one: records, for every evaluated exchange trial of a REAL run, the
    verdict, the uniform it drew and the textbook ln A computed from what is really in the box"""

    def __init__(self, inner, box):
        self.inner, self.box = inner, box

    def evaluate(self, context):
        b = self.box
        k = b["k"]
        delta = int(context.particle_delta)
        n_now = len(context.atoms) // k                # particles in the trial configuration
        n_before = n_now - delta                        # ... in the configuration the trial started from
        ens = "insertion" if delta > 0 else "deletion"
        la = mirror_loga(ens, T=b["T"], dE=0.0, mu=b["mu"], V=b["V"], N=n_before, mass=b["mass"]) if delta in (1, -1) else None
        nlog = len(context.rng.log)
        v = bool(self.inner.evaluate(context))
        draws = [x for x in context.rng.log[nlog:] if x[0] in ("random", "uniform") and x[2] is not None]
        b["records"].append({"ens": ens, "N": n_before, "la": la, "u": draws[-1][2] if draws else None, "verdict": v, "counter": int(context.number_of_exchange_particles)})
        return v

    def to_dict(self):
        return self.inner.to_dict()


def real_grand_canonical_runs(rep, rs, nruns, steps):
    """Real GrandCanonical runs of a molecular ideal gas: every verdict against the rule with N = the number of particles
    really in the box when the trial started (the counter the criteria reads must have followed the accepted exchanges)."""
    from quansino.mc.gcmc import GrandCanonical
    from quansino.moves.exchange import ExchangeMove
    from quansino.operations.displacement import Translation, TranslationRotation

    ntr = 0
    for r_ in range(nruns):
        molecular = r_ % 2 == 0
        tmpl = Atoms("CO", positions=[[0, 0, 0], [0, 0, 1.13]]) if molecular else Atoms("Cu", positions=[[0, 0, 0]])
        k = len(tmpl)
        T = float(rs.choice([500.0, 1500.0]))
        cellL = 9.0
        V = cellL**3
        mass = float(tmpl.get_masses().sum())
        nbar = float(rs.choice([2.0, 5.0]))
        mu = kB * T * math.log(nbar * thermal_wavelength(mass, T) ** 3 / V)
        atoms = Atoms(cell=[cellL] * 3, pbc=True)
        atoms.calc = FixedEnergy()
        atoms.calc.value = 0.0
        mc = GrandCanonical(atoms, exchange_atoms=tmpl, temperature=T, chemical_potential=mu, number_of_exchange_particles=0, max_cycles=3, seed=int(rs.randint(1, 10**6)))
        mc.add_move(ExchangeMove(np.array([], dtype=int), TranslationRotation() if molecular else Translation()), name="exch")
        box = {"k": k, "T": T, "mu": mu, "V": V, "mass": mass, "records": []}
        mc.moves["exch"].criteria = _Judge(mc.moves["exch"].criteria, box)
        g = ScriptedGenerator(int(rs.randint(1, 10**6)))
        mc._rng = g
        mc.context.rng = g
        try:
            mc.run(steps)
        except Exception as ex:  # noqa: BLE001
            rep.violation(f"raise:real-run:{type(ex).__name__}", f"a grand-canonical run of a {'molecular' if molecular else 'atomic'} ideal gas raised {ex!r} after {len(box['records'])} evaluated trials (criteria must never raise)", {"molecular": molecular})
            continue
        rep.count(("real-gc-run", r_), nontrivial=True)
        for i, rec in enumerate(box["records"]):
            ntr += 1
            if rec["la"] is None or rec["u"] is None:
                continue
            lu = math.log(rec["u"]) if rec["u"] > 0 else -1e9
            if abs(lu - min(0.0, rec["la"])) < 1e-9 * max(1.0, abs(rec["la"])) + 1e-12:
                continue
            want = lu < min(0.0, rec["la"])
            if rec["verdict"] != want:
                rep.violation(f"verdict:{rec['ens']}:real-run:{'molecular' if molecular else 'atomic'}", f"{rec['ens']} trial {i} of a real grand-canonical run ({'CO' if molecular else 'Cu'} ideal gas): verdict {rec['verdict']}, the rule with the {rec['N']} particles really in the box says {want} (ln A = {rec['la']:.4f}, ln u = {lu:.4f}; the simulation's particle counter read {rec['counter']})", {"record": rec, "molecular": molecular})
                break
    return ntr


class _JudgeCanon:
    """user criteria around the shipped canonical one in a REAL run: verdict, uniform drawn, and the textbook ln A from the
    energies `atoms.get_potential_energy()` gives for the trial configuration and gave for the configuration the trial
    started from (recorded by the harness at the yield)"""

    def __init__(self, inner, box):
        self.inner, self.box = inner, box

    def evaluate(self, context):
        b = self.box
        e_trial = float(context.atoms.get_potential_energy())
        la = -(e_trial - b["e_pre"]) / (kB * b["T"])
        nlog = len(context.rng.log)
        v = bool(self.inner.evaluate(context))
        draws = [x for x in context.rng.log[nlog:] if x[0] in ("random", "uniform") and x[2] is not None]
        b["records"].append({"la": la, "u": draws[-1][2] if draws else None, "verdict": v})
        return v

    def to_dict(self):
        return self.inner.to_dict()


def real_canonical_runs(rep, rs, nruns, steps):
    """Real Canonical runs on atoms that carry an energy-bearing ASE constraint (a Hookean restraint): the energy of a
    configuration is what atoms.get_potential_energy() says -- calculator energy plus restraint energy -- for the trial
    configuration AND for the reference."""
    from ase.calculators.emt import EMT
    from ase.constraints import Hookean

    from quansino.mc.canonical import Canonical
    from quansino.moves.displacement import DisplacementMove
    from quansino.operations.displacement import Ball

    ntr = 0
    for r_ in range(nruns):
        T = float(rs.choice([300.0, 1000.0]))
        a = Atoms("Cu3", positions=[[0, 0, 0], [2.5, 0, 0], [1.2, 2.2, 0.3]], cell=[12, 12, 12], pbc=False)
        a.positions += 4.0
        if r_ % 2 == 0:
            a.set_constraint(Hookean(a1=0, a2=1, rt=2.0, k=float(rs.choice([2.0, 8.0]))))
        a.calc = EMT()
        mc = Canonical(a, temperature=T, max_cycles=2, seed=int(rs.randint(1, 10**6)))
        mc.add_move(DisplacementMove(np.arange(3), Ball(0.15)), name="disp")
        box = {"T": T, "records": [], "e_pre": None}
        mc.moves["disp"].criteria = _JudgeCanon(mc.moves["disp"].criteria, box)
        g = ScriptedGenerator(int(rs.randint(1, 10**6)))
        mc._rng = g
        mc.context.rng = g
        try:
            for st in mc.irun(steps):
                for _ in st:
                    box["e_pre"] = float(mc.atoms.get_potential_energy())  # at the yield: the configuration the trial starts from
        except Exception as ex:  # noqa: BLE001
            rep.violation(f"raise:real-canonical-run:{type(ex).__name__}", f"a canonical run with {'a Hookean restraint' if r_ % 2 == 0 else 'no constraint'} raised {ex!r}", {})
            continue
        rep.count(("real-canonical-run", r_), nontrivial=True)
        for i, rec in enumerate(box["records"]):
            ntr += 1
            if rec["u"] is None:
                continue
            lu = math.log(rec["u"]) if rec["u"] > 0 else -1e9
            if abs(lu - min(0.0, rec["la"])) < 1e-9 * max(1.0, abs(rec["la"])) + 1e-12:
                continue
            want = lu < min(0.0, rec["la"])
            if rec["verdict"] != want:
                rep.violation(f"verdict:canonical:real-run:{'hookean' if r_ % 2 == 0 else 'free'}", f"canonical trial {i} of a real run ({'Hookean restraint on a bond' if r_ % 2 == 0 else 'no constraint'}): verdict {rec['verdict']}, the rule with dE from atoms.get_potential_energy() before and after says {want} (ln A = {rec['la']:.4f}, ln u = {lu:.4f})", {"record": rec})
                break
    return ntr


def hamiltonian_after_refusals(rep, rs, ncases):
    """The Hamiltonian clause after the user's geometric check refused earlier trajectories of the trial: the total-energy
    change that decides is that of the trajectory actually proposed (kinetic energy of the momenta it started from).  The
    move is driven by hand on a real context, the shipped criteria decides with a scripted uniform placed between the
    ratio of the observed total-energy change and the ratio the criteria would get from a stale kinetic energy."""
    from ase.calculators.lj import LennardJones
    from ase.units import kB

    from quansino.integrators.displacement import Verlet
    from quansino.mc.contexts import HamiltonianDisplacementContext
    from quansino.mc.criteria import HamiltonianCanonicalCriteria
    from quansino.moves.displacement import HamiltonianDisplacementMove
    from quansino.utils.dynamics import maxwell_boltzmann_distribution
    from scripted_rng import ScriptedGenerator

    n = 0
    for it in range(ncases):
        nref = it % 3
        T = float(rs.choice([300.0, 1200.0]))
        at = Atoms("Ar3", positions=[[0, 0, 0], [3.9, 0, 0], [1.9, 3.3, 0.3]] + rs.rand(3, 3) * 0.2, cell=[30, 30, 30], pbc=False)
        at.calc = LennardJones(sigma=3.4, epsilon=0.0104, rc=12.0, smooth=True)
        at.get_potential_energy()
        # the atoms come with momenta of their own (hotter or colder than the bath): whatever they were, the kinetic energy
        # that enters the test is that of the momenta the proposed trajectory started from
        at.set_momenta(rs.randn(3, 3) * np.sqrt(at.get_masses() * kB * T * float(rs.choice([0.0, 6.0, 25.0])))[:, None])
        g = ScriptedGenerator(int(rs.randint(1, 10**6)))
        ctx = HamiltonianDisplacementContext(at, g)
        ctx.temperature = T
        ctx.save_state()
        e0 = at.get_potential_energy()
        starts = []

        def dist(c, starts=starts):
            maxwell_boltzmann_distribution(c)
            starts.append(c.atoms.get_kinetic_energy())

        class RecVerlet(Verlet):   # observes the kinetic energy every trajectory really starts with
            def integrate(self, context, starts=starts):
                starts.append(context.atoms.get_kinetic_energy())
                return super().integrate(context)

        starts.clear()
        mv = HamiltonianDisplacementMove(distribution=maxwell_boltzmann_distribution, operation=RecVerlet(dt=4.0, max_steps=6))
        left = [nref]

        def check(*_a, left=left):
            if left[0] > 0:
                left[0] -= 1
                return False
            return True

        mv.check_move = check
        mv.max_attempts = 5
        try:
            if not mv(ctx):
                continue
            e1, k1 = at.get_potential_energy(), at.get_kinetic_energy()
            k_start = starts[-1]     # the trajectory that was proposed is the last one integrated
            dh_true = (e1 + k1) - (e0 + k_start)
            dh_code = (e1 + k1) - (e0 + float(ctx.last_kinetic_energy))
            la_true, la_code = -dh_true / (kB * T), -dh_code / (kB * T)
            if abs(la_true - la_code) > 1e-9 and min(la_true, la_code) < 0:
                lu = 0.5 * (min(la_true, 0.0) + min(la_code, 0.0))      # between the two ratios
            else:
                lu = min(la_true, 0.0) - 0.3                              # just below the ratio: must be accepted
            g.script("random", float(np.exp(lu)))
            verdict = bool(HamiltonianCanonicalCriteria().evaluate(ctx))
        except Exception as ex:  # noqa: BLE001
            rep.violation(f"raise:hamiltonian-after-refusals:{type(ex).__name__}", f"a Hamiltonian trial with {nref} refused trajectories raised {ex!r}", {"refused": nref})
            continue
        n += 1
        rep.count(("hamiltonian-after-refusals", it), nontrivial=nref > 0)
        want = lu < min(la_true, 0.0) or la_true >= 0
        if verdict != want:
            rep.violation("verdict:hamiltonian:after-refused-trajectory", f"Hamiltonian trial after {nref} refused trajectories: total-energy change of the proposed trajectory {dh_true:.6f} eV (ln A = {la_true:.4f}), ln u = {lu:.4f}: criteria returned {verdict}, rule says {want} (the kinetic energy used is {float(ctx.last_kinetic_energy):.6f}, the trajectory started with {k_start:.6f})", {"refused": nref, "T": T})
    return n


def run(tier: str) -> int:
    rep = Report("C02", tier, "model_checking")
    rs = np.random.RandomState(rep.seed % 2**32)
    tmp = tempfile.mkdtemp(prefix="c02_")
    try:
        out = os.path.join(tmp, "acc.ndjson")
        env = {"ACC_OUT": out}
        if tier == "thorough":
            env["ACC_DENSE"] = "1"
        r = run_tlc("Accept", "MC_Accept.cfg", workers=8, env=env, timeout=3000)
        if not r.ok:
            if r.invariant_violated:
                rep.violation(f"model:{r.invariant_violated[0]}", f"TLC: {r.invariant_violated[0]} violated in Accept.tla", {"tlc": r.out[-2000:]})
            else:
                rep.error(f"TLC failed on Accept: {r.out[-1500:]}")
            return rep.finish()
        pts = [json.loads(l) for l in open(out)]
    finally:
        shutil.rmtree(tmp, ignore_errors=True)
    rig = Rig()
    n_real = 0
    skipped_strain = 0
    nvariants = 2 if tier == "quick" else 8
    for idx, c in enumerate(pts):
        p = c["p"]
        for variant in ([idx % 8] if tier == "quick" else range(nvariants)) if p["ens"] not in ("canonical", "hamiltonian") else [0]:
            kw = lattice_inputs(p, variant)
            strain = kw.pop("_strain", None)
            V0 = kw.pop("_V0", None)
            n_real += 1
            key = (p["ens"], p["e"], p["k"], p["m"], p["pdv"], p["w"], p["mu"], p["a"], p["n"], p["j"], p["t"], variant)
            rep.count(key, nontrivial=True)
            if n_real % 2500 == 1:
                rep.sample({"point": p, "log2A": c["loga"], "expected_accept": c["accept"]})
            # the float mirror must agree with TLC on every lattice point (binds the mirror to the spec)
            ctx = {"point": p, "variant": variant, "expected": c["accept"], "log2A": c["loga"]}
            try:
                got, crit, ndraws = rig.evaluate(p["ens"], **kw)
            except Exception as ex:  # noqa: BLE001
                big = "favourable" if c["loga"] > 0 else "unfavourable"
                rep.violation(f"raise:{p['ens']}:{type(ex).__name__}:{big}", f"{p['ens']} criteria raised {type(ex).__name__}: {ex} at log2 A = {c['loga']} (must never raise)", ctx)
                continue
            if p["ens"] == "isotension" and strain is not None and hasattr(crit, "strain_tensor"):
                if not np.allclose(crit.strain_tensor, strain, atol=1e-12):
                    skipped_strain += 1  # the package defines strain differently from this realisation: lattice layer not applicable
                    continue
            # one uniform decides the trial; a trial with A >= 1 may be accepted without drawing
            if ndraws > 1 or (ndraws == 0 and c["loga"] < 0):
                rep.violation(f"draws:{p['ens']}", f"{p['ens']} criteria drew {ndraws} uniforms from the simulation's generator for a trial with log2 A = {c['loga']}", ctx)
            if got != c["accept"]:
                shape = "shear" if variant % 4 >= 2 else "noshear"
                regime = "A>=1" if c["loga"] >= 0 else "A<1"
                rep.violation(f"verdict:{p['ens']}:{regime}:{shape if p['ens'] in ('isobaric', 'isotension') else ''}",
                              f"{p['ens']}: u = 2^-({p['j']}+1/2), log2 A = {c['loga']}: criteria returned {got}, rule says {c['accept']}", ctx)
    # ---- hydrostatic isotension == isobaric, for arbitrary (incl. sheared) cells: algorithm-agnostic ----
    nh = 300 if tier == "quick" else 5000
    for k in range(nh):
        T = float(10 ** rs.uniform(1.5, 4))
        n = int(rs.randint(0, 4))
        base = np.diag(rs.uniform(6, 12, 3)) + np.tril(rs.uniform(-2, 2, (3, 3)), -1)
        if k % 3 == 0:
            base = base[[2, 1, 0]]  # left-handed
        F = np.eye(3) + rs.uniform(-0.08, 0.08, (3, 3))
        new = F @ base
        P = float(rs.choice([0.0, 0.01, 0.3, -0.05]))
        dE = float(rs.normal() * kB * T * 3)
        u = float(rs.rand())
        rep.count(("hydro", k))
        try:
            a, _, _ = rig.evaluate("isobaric", T=T, u=u, dE=dE, n=n, cell_old=base, cell_new=new, P=P)
            b, _, _ = rig.evaluate("isotension", T=T, u=u, dE=dE, n=n, cell_old=base, cell_new=new, P=P, S=P * np.eye(3))
        except Exception as ex:  # noqa: BLE001
            rep.violation(f"raise:hydrostatic:{type(ex).__name__}", f"criteria raised {ex!r}", {"T": T, "P": P})
            continue
        V0, V1 = abs(np.linalg.det(base)), abs(np.linalg.det(new))
        la = mirror_loga("isobaric", T=T, dE=dE, n=n, V0=V0, V1=V1, P=P)
        if abs(math.log(u) - la) < 1e-6 * max(1.0, abs(la)):
            continue  # guard band
        if a != b:
            rep.violation("hydrostatic-isotension-differs-from-isobaric", f"S = P*1 (P={P}) but isotension verdict {b} != isobaric verdict {a} for a sheared trial (ln A = {la:.4f}, ln u = {math.log(u):.4f})",
                          {"T": T, "P": P, "n": n, "cell_old": base.tolist(), "cell_new": new.tolist(), "dE": dE, "u": u})
        want = math.log(u) < min(0.0, la)
        if a != want:
            rep.violation("verdict:isobaric:offlattice", f"isobaric verdict {a}, rule says {want} (ln A = {la}, ln u = {math.log(u)})", {"T": T, "P": P, "n": n, "dE": dE, "u": u})
    # ---- off-lattice random inputs for the other ensembles ------------------------------------------
    noff = 2000 if tier == "quick" else 50000
    guard = 0
    for k in range(noff):
        ens = ["canonical", "hamiltonian", "insertion", "deletion", "isotension"][k % 5]
        T = float(10 ** rs.uniform(1, 4.3))
        scale = [1.0, 30.0, 800.0, 5000.0][rs.randint(4)]
        dE = float(rs.normal() * kB * T * scale)
        u = float(rs.rand()) if rs.rand() < 0.8 else float(10 ** rs.uniform(-300, -1))
        kw = {"T": T, "u": u, "dE": dE}
        mk = {"T": T, "dE": dE}
        if ens == "hamiltonian":
            kw["dK"] = mk["dK"] = float(rs.normal() * kB * T * scale)
        if ens in ("insertion", "deletion"):
            tmpl = ["Cu", "CO", "CO*"][rs.randint(3)]
            N = int(rs.randint(0, 50)) + (1 if ens == "deletion" else 0)
            V = float(10 ** rs.uniform(0, 5))
            mu = float(rs.normal() * 2)
            kw.update(mu=mu, N=N, V=V, tmpl=tmpl)
            mk.update(mu=mu, N=N, V=V, mass=TMPL_MASS[tmpl])
        if ens == "isotension":
            n = int(rs.randint(0, 4))
            base = np.diag(rs.uniform(6, 12, 3)) + np.tril(rs.uniform(-2, 2, (3, 3)), -1)
            if k % 4 == 0:
                base = base[[0, 2, 1]]  # left-handed
            F = np.eye(3) + rs.uniform(-0.05, 0.05, (3, 3))
            new = F @ base
            P = float(rs.choice([0.0, 0.02, 0.2]))
            S = rs.uniform(-0.05, 0.05, (3, 3))
            S = S + S.T if rs.rand() < 0.7 else S
            kw.update(n=n, cell_old=base, cell_new=new, P=P, S=S)
            mk.update(n=n, V0=abs(np.linalg.det(base)), V1=abs(np.linalg.det(new)), P=P)
        rep.count(("off", k))
        try:
            got, crit, _ = rig.evaluate(ens, **kw)
        except Exception as ex:  # noqa: BLE001
            rep.violation(f"raise:{ens}:{type(ex).__name__}:offlattice", f"{ens} criteria raised {type(ex).__name__}: {ex} (must never raise)", {k2: (v.tolist() if hasattr(v, 'tolist') else v) for k2, v in kw.items()})
            continue
        if ens == "isotension":
            # composition of the exponent with the strain the criteria itself publishes
            mk["work"] = float(mk["V0"] * np.trace((S - P * np.eye(3)) @ crit.strain_tensor))
        la = mirror_loga(ens, **mk)
        lu = math.log(u)
        if abs(lu - min(0.0, la)) < 1e-9 * max(1.0, abs(la)) + 1e-12:
            guard += 1
            continue
        want = lu < min(0.0, la)
        if got != want:
            rep.violation(f"verdict:{ens}:offlattice", f"{ens}: criteria returned {got}, textbook rule says {want} (ln A = {la:.6g}, ln u = {lu:.6g})", {k2: (v.tolist() if hasattr(v, 'tolist') else v) for k2, v in kw.items()})
    # ---- several trials on ONE configured simulation: evaluating a trial must not change what was configured ----------
    nseq = 150 if tier == "quick" else 3000
    for k in range(nseq):
        ens = ["isotension", "isobaric", "insertion", "deletion", "canonical"][k % 5]
        T = float(10 ** rs.uniform(1.5, 4))
        P = float(rs.choice([0.02, 0.3, -0.05, 0.5]))
        S = rs.uniform(-0.05, 0.05, (3, 3))
        S = S + S.T
        n = int(rs.randint(0, 4))
        tmpl = ["Cu", "CO", "CO*"][rs.randint(3)]
        N = int(rs.randint(1, 30))
        V = float(10 ** rs.uniform(1, 4))
        mu = float(rs.normal())
        rep.count(("sequence", k))
        for trial in range(4):
            dE = float(rs.normal() * kB * T * 2)
            u = float(rs.rand())
            kw = {"T": T, "u": u, "dE": dE, "install": trial == 0}
            mk = {"T": T, "dE": dE}
            if ens in ("isobaric", "isotension"):
                base = np.diag(rs.uniform(6, 12, 3)) + np.tril(rs.uniform(-2, 2, (3, 3)), -1)
                new = (np.eye(3) + rs.uniform(-0.05, 0.05, (3, 3))) @ base
                kw.update(n=n, cell_old=base, cell_new=new, P=P, S=S)
                mk.update(n=n, V0=abs(np.linalg.det(base)), V1=abs(np.linalg.det(new)), P=P)
            if ens in ("insertion", "deletion"):
                kw.update(mu=mu, N=N, V=V, tmpl=tmpl)
                mk.update(mu=mu, N=N, V=V, mass=TMPL_MASS[tmpl])
            try:
                got, crit, _ = rig.evaluate(ens, **kw)
            except Exception as ex:  # noqa: BLE001
                rep.violation(f"raise:{ens}:{type(ex).__name__}:sequence", f"{ens} criteria raised {ex!r} at trial {trial + 1} of a sequence", {"ens": ens, "trial": trial})
                break
            if ens == "isotension":
                mk["work"] = float(mk["V0"] * np.trace((S - P * np.eye(3)) @ crit.strain_tensor))
            la = mirror_loga(ens, **mk)
            lu = math.log(u)
            if abs(lu - min(0.0, la)) < 1e-9 * max(1.0, abs(la)) + 1e-12:
                continue
            if got != (lu < min(0.0, la)):
                rep.violation(f"verdict:{ens}:later-trial-of-a-sequence", f"{ens}: trial {trial + 1} on one configured simulation (parameters set once, before trial 1): criteria returned {got}, rule says {lu < min(0.0, la)} (ln A = {la:.6g}, ln u = {lu:.6g})",
                              {"ens": ens, "trial": trial + 1, "T": T, "P": P, "S": S.tolist()})
                break
    # ---- the reference volume of the first trial of a run is the volume the atoms have WHEN THE RUN STARTS ----------
    nrun = first_trial_reference(rep, rs, 12 if tier == "quick" else 120)
    rep.add(first_trial_runs=nrun, sequences=nseq, default_criteria_cases=default_criteria_layer(rep))
    rep.add(real_run_trials=real_grand_canonical_runs(rep, rs, 4 if tier == "quick" else 24, 60 if tier == "quick" else 200))
    rep.add(hamiltonian_after_refusals=hamiltonian_after_refusals(rep, rs, 12 if tier == "quick" else 90))
    rep.add(real_canonical_trials=real_canonical_runs(rep, rs, 4 if tier == "quick" else 24, 40 if tier == "quick" else 150))
    rep.add(states=r.distinct, transitions=r.generated, traces_validated_against_impl=n_real, exhaustive=True, lattice_points=len(pts), hydrostatic_pairs=nh, offlattice=noff,
            guard_band_discards=guard, isotension_points_skipped_strain_definition=skipped_strain,
            rule="every lattice point of Accept.tla (energies, P dV, stress work, mu in units of kT ln2 incl. 0, +-1, +-709, +-1025, +-1100, +-1e6; V'/V = 2^m; prefactor 2^a; N in 0..3; u = 2^-(j+1/2), j up to 1000; T in {T0, 2T0}) realised on real Canonical/HamiltonianCanonical/Isobaric/Isotension/GrandCanonical objects through their property setters after installing stale values (cubic, triclinic, sheared cells; atomic and molecular species; antisymmetric stress decoration); plus random hydrostatic isotension-vs-isobaric pairs and random off-lattice inputs judged by the log-form mirror with a guard band")
    rep.assumptions += ["strain is taken as the criteria publishes it (criteria.strain_tensor); the statement does not define it",
                        "thermal wavelength from scipy CODATA constants (differs from ASE's by ~1e-8 relative, far inside the sqrt(2) lattice margin)"]
    return rep.finish()
