"""C12 -- constraints on the atoms are respected.

(a) engine traces validated by TLC against QMC.tla (FixAtoms: position tokens of fixed atoms
    never change through call / accept / reject / fail; C12_Fixed on every end state);
(b) numeric layer for the clauses TLC cannot state on tokens: fixed centre of mass under
    displacement (incl. vetoing check_move), Hamiltonian and force-bias moves (incl. fictitious
    sampler masses), fixed atoms under Hamiltonian and force-bias moves, FixRot.adjust_momenta."""

from __future__ import annotations

import warnings

import numpy as np
from ase import Atoms
from ase.constraints import FixAtoms, FixCom

from calcs import Harmonic, PairRebuild
from qcheck import engine_check
from common import Report


def cluster(rs, n, species=("Cu", "Al", "Au", "Pt")):
    sym = [species[i % len(species)] for i in range(n)]
    pos = rs.rand(n, 3) * 4 + 3
    a = Atoms("".join(sym), positions=pos, cell=[12, 12, 12], pbc=False)
    a.calc = PairRebuild(a=0.3, rc=4.0)
    return a


def run(tier: str) -> int:
    from quansino.constraints import FixRot
    from quansino.integrators.displacement import Verlet
    from quansino.mc.canonical import Canonical, HamiltonianCanonical
    from quansino.mc.criteria import CanonicalCriteria
    from quansino.mc.fbmc import ForceBias
    from quansino.moves.displacement import DisplacementMove, HamiltonianDisplacementMove
    from quansino.operations.displacement import Ball, Box, Rotation, TranslationRotation

    warnings.simplefilter("ignore")
    rep = Report("C12", tier, "model_checking")
    engine_check("C12", tier, rep=rep, finish=False)
    rs = np.random.RandomState(rep.seed % 2**32)
    nrun = 7 if tier == "quick" else 42
    steps = 40 if tier == "quick" else 200
    for it in range(nrun):
        n = int(rs.randint(3, 7))
        kind = ["canon_veto", "canon_composite", "canon_molecule", "hmc", "fbmc", "fbmc_fictitious_masses", "canon_far_small_steps"][it % 7]
        for constraint in ("fixcom", "fixatoms"):
            atoms = cluster(rs, n)
            if kind == "canon_far_small_steps":
                # a cluster far from the origin moved in small steps: the shifts by which FixCom compensates a trial are tiny
                # RELATIVE to the coordinates; a rejected trial must still be undone for every atom
                atoms.positions += np.array([3000.0, -2500.0, 4000.0])
            fixed = sorted(rs.choice(n, size=int(rs.randint(1, n - 1)), replace=False).tolist())
            atoms.set_constraint(FixCom() if constraint == "fixcom" else FixAtoms(indices=fixed))
            com0 = atoms.get_center_of_mass().copy()
            pos0 = atoms.get_positions().copy()
            seed = int(rs.randint(1, 10**6))
            rep.count((kind, constraint, it))
            ctx = {"kind": kind, "constraint": constraint, "n": n, "seed": seed}
            try:
                if kind.startswith("canon"):
                    mc = Canonical(atoms, temperature=float(rs.choice([300.0, 3000.0])), max_cycles=3, seed=seed)
                    if kind == "canon_veto":
                        d = DisplacementMove(np.arange(n), Ball(0.4))
                        cnt = {"k": 0}

                        def veto(context, cnt=cnt):
                            cnt["k"] += 1
                            return cnt["k"] % 3 != 0  # every third attempt is refused

                        d.check_move = veto
                        d.max_attempts = 2
                        mc.add_move(d)
                    elif kind == "canon_far_small_steps":
                        mc.add_move(DisplacementMove(np.arange(n), Ball(0.03)))
                    elif kind == "canon_composite":
                        mc.add_move(DisplacementMove(np.arange(n), Box(0.3)) * 2 + DisplacementMove(np.arange(n)[::-1].copy(), Ball(0.2)), criteria=CanonicalCriteria())
                    else:
                        lab = np.arange(n) // 2
                        mc.add_move(DisplacementMove(lab, TranslationRotation() if constraint == "fixatoms" else Rotation()))
                    mc.run(steps)
                elif kind == "hmc":
                    mc = HamiltonianCanonical(atoms, temperature=800.0, max_cycles=1, seed=seed)
                    h = HamiltonianDisplacementMove(operation=Verlet(dt=float(rs.choice([0.5, 2.0])), max_steps=int(rs.randint(1, 20))))
                    if it % 2:
                        h.check_move = lambda context, c={"k": 0}: (c.__setitem__("k", c["k"] + 1) or c["k"] % 4 != 0)
                    mc.add_move(h)
                    mc.run(max(steps // 4, 5))
                else:
                    mc = ForceBias(atoms, delta=float(rs.choice([0.01, 0.3])), temperature=float(rs.choice([300.0, 5000.0])), seed=seed)
                    if kind == "fbmc_fictitious_masses":
                        mc.update_masses(rs.uniform(1, 100, (n, 3)))
                    mc.run(steps)
            except Exception as ex:  # noqa: BLE001
                rep.violation(f"raise:{kind}:{constraint}:{type(ex).__name__}", f"{kind} with {constraint} raised {ex!r}", ctx)
                continue
            if constraint == "fixcom":
                drift = float(np.abs(atoms.get_center_of_mass() - com0).max())
                if drift > 1e-9:
                    rep.violation(f"com-drift:{kind}", f"{kind}: with FixCom the centre of mass drifted by {drift:.3e} A over {steps} steps", dict(ctx, drift=drift))
            else:
                moved = float(np.abs(atoms.get_positions()[fixed] - pos0[fixed]).max())
                if moved != 0.0:
                    rep.violation(f"fixed-atom-moved:{kind}", f"{kind}: atoms fixed by FixAtoms moved by {moved:.3e} A", dict(ctx, fixed=fixed))
            if float(np.abs(atoms.get_positions() - pos0).max()) == 0.0:
                rep.error(f"vacuity: nothing moved in {kind}/{constraint}")
            # ---- "however many steps are run": the same simulation object is run again after the user has moved the
            # system by hand between the runs (a rigid shift); the constraint holds from the edited configuration on
            bad = False
            for rnd in range(4):
                atoms.positions += rs.uniform(0.3, 1.0, 3)
                com1 = atoms.get_center_of_mass().copy()
                pos1 = atoms.get_positions().copy()
                rep.count((kind, constraint, "run-after-edit", rnd))
                if hasattr(mc, "temperature") and not kind.startswith("fbmc"):
                    mc.temperature = [1.0, 30.0, 300.0, 3000.0][rnd]  # cold rounds: the first trials after the edit are mostly rejected
                try:
                    mc.run(5 if kind == "hmc" else 10)
                except Exception as ex:  # noqa: BLE001
                    rep.violation(f"raise:{kind}:{constraint}:second-run:{type(ex).__name__}", f"{kind} with {constraint}: run after a manual edit raised {ex!r}", ctx)
                    break
                if constraint == "fixcom":
                    drift = float(np.abs(atoms.get_center_of_mass() - com1).max())
                    if drift > 1e-9:
                        rep.violation(f"com-drift:{kind}:second-run", f"{kind}: with FixCom the centre of mass drifted by {drift:.3e} A during a run started after the user shifted the system", dict(ctx, drift=drift, round=rnd))
                        break
                else:
                    moved = float(np.abs(atoms.get_positions()[fixed] - pos1[fixed]).max())
                    if moved != 0.0:
                        rep.violation(f"fixed-atom-moved:{kind}:second-run", f"{kind}: atoms fixed by FixAtoms moved by {moved:.3e} A during a run started after the user shifted the system", dict(ctx, fixed=fixed, round=rnd))
                        break
    # ---- a Hamiltonian move driven BY HAND (move(context)) after the user shifted the system, with a check_move that refuses
    # the first trajectories: every refused trajectory goes back to where THIS call started ---------------------------------
    for it in range(6 if tier == "quick" else 60):
        n = int(rs.randint(3, 6))
        for constraint in ("fixcom", "fixatoms"):
            atoms = cluster(rs, n)
            fixed = sorted(rs.choice(n, size=int(rs.randint(1, n - 1)), replace=False).tolist())
            atoms.set_constraint(FixCom() if constraint == "fixcom" else FixAtoms(indices=fixed))
            mc = HamiltonianCanonical(atoms, temperature=800.0, max_cycles=1, seed=int(rs.randint(1, 10**6)))
            h = HamiltonianDisplacementMove(operation=Verlet(dt=1.0, max_steps=int(rs.randint(2, 8))))
            mc.add_move(h)
            mc.run(2)
            atoms.positions += rs.uniform(0.3, 1.0, 3)  # the user's edit; no run() (and hence no re-validation) follows
            com1 = atoms.get_center_of_mass().copy()
            pos1 = atoms.get_positions().copy()
            nveto = int(rs.randint(1, 4))
            h.max_attempts = nveto + (1 if it % 2 else 0)  # the call ends refused (all attempts vetoed) or completed
            h.check_move = lambda context, c={"k": 0}, nv=nveto: (c.__setitem__("k", c["k"] + 1) or c["k"] > nv)
            rep.count(("hand-driven-ham", constraint, it))
            try:
                h(mc.context)
            except Exception as ex:  # noqa: BLE001
                rep.violation(f"raise:hand-driven-ham:{constraint}:{type(ex).__name__}", f"a Hamiltonian move called by hand raised {ex!r}", {"constraint": constraint})
                continue
            if constraint == "fixcom":
                drift = float(np.abs(atoms.get_center_of_mass() - com1).max())
                if drift > 1e-9:
                    rep.violation("com-drift:hmc:hand-driven-after-edit", f"a Hamiltonian move called by hand after the user shifted the system ({nveto} refused trajectories): the centre of mass moved by {drift:.3e} A", {"nveto": nveto})
            else:
                moved = float(np.abs(atoms.get_positions()[fixed] - pos1[fixed]).max())
                if moved != 0.0:
                    rep.violation("fixed-atom-moved:hmc:hand-driven-after-edit", f"a Hamiltonian move called by hand after the user shifted the system ({nveto} refused trajectories): fixed atoms moved by {moved:.3e} A", {"nveto": nveto, "fixed": fixed})
    # ---- FixRot.adjust_momenta: zero angular momentum, unchanged linear momentum ----------------------------
    nrot = 200 if tier == "quick" else 5000
    worst = 0.0
    for it in range(nrot):
        n = int(rs.randint(3, 9))
        pos = rs.randn(n, 3) * rs.uniform(0.5, 3) + rs.uniform(-5, 5, 3)
        a = Atoms("Cu" * n, positions=pos)
        a.set_masses(rs.uniform(1, 200, n))
        I = a.get_moments_of_inertia()
        if I.min() < 1e-3 * I.max():
            continue  # (nearly) collinear: outside the property
        p = rs.uniform(-10, 10, (n, 3))
        P0 = p.sum(0)
        q = p.copy()
        FixRot().adjust_momenta(a, q)
        r = a.positions - a.get_center_of_mass()
        L = np.cross(r, q).sum(0)
        scale = np.abs(np.cross(r, p)).sum() + 1e-30
        rep.count(("fixrot", it))
        worst = max(worst, float(np.abs(L).max() / scale))
        if np.abs(L).max() > 1e-9 * scale:
            rep.violation("fixrot:angular-momentum", f"FixRot leaves |L| = {np.abs(L).max():.3e} (scale {scale:.3e}) for a non-collinear geometry", {"positions": pos.tolist(), "masses": a.get_masses().tolist()})
        if np.abs(q.sum(0) - P0).max() > 1e-9 * (np.abs(p).sum() + 1e-30):
            rep.violation("fixrot:linear-momentum", f"FixRot changed the total linear momentum by {np.abs(q.sum(0) - P0).max():.3e}", {"positions": pos.tolist()})
    # ---- the same for nearly linear (but not collinear) molecules in any orientation, and for ONE constraint object used
    # again after the masses (isotopologue) or the geometry changed -----------------------------------------------------
    shared = FixRot()
    nlin = 60 if tier == "quick" else 1500
    for it in range(nlin):
        n = int(rs.randint(3, 7))
        axis = rs.randn(3)
        axis /= np.linalg.norm(axis)
        off = float(10 ** rs.uniform(-2, -0.5))  # perpendicular scatter 0.01 .. 0.3 A on a molecule a few A long
        pos = np.outer(np.arange(n) * 1.2, axis) + rs.randn(n, 3) * off + rs.uniform(-3, 3, 3)
        a = Atoms("C" * n, positions=pos)
        for stage in range(2):
            a.set_masses(rs.uniform(1, 40, n))  # stage 1: same geometry, other masses, same constraint object
            I = a.get_moments_of_inertia()
            if I.min() < 1e-7 * I.max():
                break
            p = rs.uniform(-10, 10, (n, 3))
            q = p.copy()
            shared.adjust_momenta(a, q)
            r = a.positions - a.get_center_of_mass()
            L = np.cross(r, q).sum(0)
            scale = np.abs(np.cross(r, p)).sum() + 1e-30
            rep.count(("fixrot-linear", it, stage))
            if np.abs(L).max() > 1e-6 * scale:
                what = "nearly-linear" if stage == 0 else "same-object-other-masses"
                rep.violation(f"fixrot:angular-momentum:{what}", f"FixRot leaves |L| = {np.abs(L).max():.3e} (scale {scale:.3e}) for a nearly linear, non-collinear molecule (I_min / I_max = {I.min() / I.max():.1e}){' after the masses were changed at the same geometry (one constraint object)' if stage else ''}", {"positions": pos.tolist(), "masses": a.get_masses().tolist()})
                break
            if np.abs(q.sum(0) - p.sum(0)).max() > 1e-9 * (np.abs(p).sum() + 1e-30):
                rep.violation("fixrot:linear-momentum:nearly-linear", "FixRot changed the total linear momentum", {"positions": pos.tolist()})
                break
    # one constraint object, compact molecules: masses change at fixed geometry, then the geometry changes
    for it in range(40 if tier == "quick" else 800):
        n = int(rs.randint(3, 8))
        a = Atoms("O" * n, positions=rs.randn(n, 3) * 1.5)
        for stage in range(3):
            if stage == 2:
                a.positions = a.positions + rs.randn(n, 3) * 0.4
            a.set_masses(rs.uniform(1, 200, n))
            p = rs.uniform(-10, 10, (n, 3))
            q = p.copy()
            shared.adjust_momenta(a, q)
            r = a.positions - a.get_center_of_mass()
            L = np.cross(r, q).sum(0)
            scale = np.abs(np.cross(r, p)).sum() + 1e-30
            rep.count(("fixrot-shared", it, stage))
            if np.abs(L).max() > 1e-9 * scale and a.get_moments_of_inertia().min() > 1e-3 * a.get_moments_of_inertia().max():
                rep.violation("fixrot:angular-momentum:same-object-reused", f"one FixRot object used again after {'the geometry' if stage == 2 else 'the masses'} changed leaves |L| = {np.abs(L).max():.3e} (scale {scale:.3e})", {"stage": stage})
                break
    rep.add(constraint_runs=2 * nrun, fixrot_cases=nrot, worst_fixrot_residual=worst,
            rule="(a) engine traces (Canonical, HamiltonianCanonical, Isobaric, GrandCanonical with FixAtoms / FixCom) validated against QMC.tla + exhaustive MC_QMC.tla (C12_FixedNeverMove); (b) runs of displacement (vetoing check_move, composites, molecular rotation), Hamiltonian (dt 0.5 / 2 fs, 1-20 steps, vetoes) and force-bias moves (delta 0.01 / 0.3, T 300 / 5000, fictitious sampler masses) with FixCom (drift <= 1e-9 A) and FixAtoms (exactly unmoved); FixRot.adjust_momenta on random non-collinear geometries (|L| and dP <= 1e-9 relative)")
    rep.assumptions += ["FixCom drift tolerance 1e-9 A; FixAtoms: bit-exact", "geometries whose smallest principal moment is below 1e-3 of the largest are outside the FixRot clause"]
    return rep.finish()
