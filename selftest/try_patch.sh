#!/bin/sh
# usage: try_patch.sh <patch> <property> [tier]
# Applies the patch to a SCRATCH worktree of /repo's HEAD (so that checks running elsewhere against /repo are not
# disturbed), runs the check against it (QUANSINO_REPO), removes the worktree.  Equivalent to
#   git -C /repo apply <patch>; ./check <property> <tier>; git -C /repo checkout -- .
patch=$(readlink -f "$1"); prop=$2; tier=${3:-quick}
wt=$(mktemp -d /tmp/qmut_XXXXXX); rmdir "$wt"
git -C /repo worktree add -q --detach "$wt" HEAD || exit 2
cleanup() { git -C /repo worktree remove --force "$wt" 2>/dev/null; rm -rf "$wt"; [ -n "$KEEP_LOG" ] && cp /tmp/try_patch_$$.log $KEEP_LOG; rm -f /tmp/try_patch_$$.log; }
trap cleanup EXIT
if ! git -C "$wt" apply --check "$patch" 2>/dev/null; then echo "PATCH-DOES-NOT-APPLY $patch"; exit 3; fi
git -C "$wt" apply "$patch"
cd /verif && VERIF_SCRATCH_OUT="$wt/_verif_out" QUANSINO_REPO="$wt" ./check "$prop" "$tier" > /tmp/try_patch_$$.log 2>&1
rc=$?
grep -E "^VIOLATION|^  signature|^OK|MACHINERY" /tmp/try_patch_$$.log | cut -c1-260 | head -${LINES_MAX:-4}
echo "rc=$rc"
exit $rc
