#!/bin/sh
# usage: try_patch.sh <patch> <property> [tier]   -> applies patch to /repo, runs the check, reverts
patch=$1; prop=$2; tier=${3:-quick}
cd /repo || exit 2
git reset -q --hard HEAD
if ! git apply --check "$patch" 2>/dev/null; then echo "PATCH-DOES-NOT-APPLY $patch"; exit 3; fi
git apply "$patch"
cd /verif && ./check "$prop" "$tier" > /tmp/try_patch_$$.log 2>&1
rc=$?
git -C /repo reset -q --hard HEAD
grep -E "^VIOLATION|^  signature|^OK|MACHINERY" /tmp/try_patch_$$.log | cut -c1-260 | head -${LINES_MAX:-4}
rm -f /tmp/try_patch_$$.log
echo "rc=$rc"
exit $rc
