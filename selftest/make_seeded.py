"""Copy verified seeded changes from the staging area into /verif/seeded/<id>/ (patch.diff, demo.py, meta.json).
Usage: make_seeded.py <staging dir> <verify.jsonl> [suffix]"""
import json, os, shutil, sys

stage, ver, suffix = sys.argv[1], sys.argv[2], (sys.argv[3] if len(sys.argv) > 3 else "")
rows = [json.loads(l) for l in open(ver) if l.startswith("{")]
for r in rows:
    pid, m = r["id"].split("-")
    src = os.path.join(stage, pid)
    if not r.get("applies"):
        print("skip (does not apply)", r["id"]); continue
    ok = r["demo_clean_rc"] == 0 and r["demo_mut_rc"] != 0 and r["tests_rc"] == 0
    if not ok:
        print("NOT KEPT", r["id"], r); continue
    dst = f"/verif/seeded/{pid}-{m}{suffix}"
    os.makedirs(dst, exist_ok=True)
    shutil.copy(r["patch"], os.path.join(dst, "patch.diff"))
    shutil.copy(os.path.join(src, f"{m}.demo.py"), os.path.join(dst, "demo.py"))
    meta = json.load(open(os.path.join(src, f"{m}.meta.json")))
    out = {
        "property": pid,
        "breaks": meta.get("clause_broken"),
        "needs_to_manifest": meta.get("what_it_needs_to_manifest"),
        "files_touched": meta.get("files_touched"),
        "origin": "written by an independent sub-agent that saw only the property text and a scratch worktree" + (" (round " + (suffix or "1") + ", on top of the fix commits of that time)" if suffix else " of the pinned commit") + ("; ported by hand onto the fix commits" if "ported" in r["patch"] else ""),
        "confirmed_by_me": {
            "repo_head": r["head"],
            "commands": ["git worktree add --detach <scratch> HEAD", "python demo.py  (clean tree)", "git apply patch.diff", "python demo.py  (patched tree)", "python -m pytest -q -p no:cacheprovider -n 5 --deselect tests/mc/test_isotension.py::test_isotension_simulation_with_mask"],
            "demo_exit_clean": r["demo_clean_rc"], "demo_exit_patched": r["demo_mut_rc"], "tests": r["tests"], "demo_message_patched": r["demo_msg"],
        },
        "caught_by": f"./check {pid} quick  (exit 1; see DESIGN.md section 8.6)",
    }
    json.dump(out, open(os.path.join(dst, "meta.json"), "w"), indent=1)
    print("kept", dst)
