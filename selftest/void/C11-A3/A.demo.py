"""
C11 demo A: two DisplacementMove objects (e.g. a translation move and a second move
with its own label array) share ONE DisplacementContext, as they do in every Monte Carlo
driver.  Each move must displace exactly the atoms carrying the label it selected in
ITS OWN label array, and never an atom with a negative label -- whatever the other
move did to the context in between, and also when the same particle is selected twice.
"""

from __future__ import annotations

import sys

import numpy as np
from ase import Atoms

from quansino.mc.contexts import DisplacementContext
from quansino.moves.displacement import DisplacementMove
from quansino.operations import Box


def changed_rows(before, after):
    return set(np.where(np.any(np.abs(after - before) > 1e-12, axis=1))[0].tolist())


def check_call(move, context, name, history):
    atoms = context.atoms
    before = atoms.get_positions()
    ok = move(context)
    after = atoms.get_positions()
    assert ok, f"{name}: move unexpectedly failed"
    label = move.displaced_labels
    assert label is not None and label >= 0, f"{name}: reported label {label!r}"
    expected = set(np.where(np.asarray(move.labels) == label)[0].tolist())
    moved = changed_rows(before, after)
    history.append((name, int(label), sorted(moved)))
    negative = set(np.where(np.asarray(move.labels) < 0)[0].tolist())
    assert not (moved & negative), (
        f"C11 violated: {name} displaced atoms {sorted(moved & negative)} that have a "
        f"NEGATIVE label in its label array (selected label {label}); history={history}"
    )
    assert moved == expected, (
        f"C11 violated: {name} selected label {label} (atoms {sorted(expected)}) but the "
        f"atoms that changed are {sorted(moved)}; history={history}"
    )
    # one common operation result for all atoms of the particle (Box is a rigid shift)
    shifts = (after - before)[sorted(moved)]
    assert np.allclose(shifts, shifts[0]), f"{name}: atoms of one particle shifted differently"


def scenario_preselected():
    """Deterministic sequence: A moves particle 0, B moves particle 0 of ITS labelling,
    A moves particle 0 again."""
    atoms = Atoms("H6", positions=np.arange(18, dtype=float).reshape(6, 3) * 3.0)
    atoms.set_cell([60.0] * 3)
    context = DisplacementContext(atoms, np.random.default_rng(11))

    # move_a may displace the two "molecules" made of atoms (0,1) and (2,3) only;
    # move_b may displace atoms 4 and 5 only (non contiguous, unsorted labels).
    move_a = DisplacementMove([0, 0, 7, 7, -1, -1], Box(0.3))
    move_b = DisplacementMove([-1, -1, -1, -1, 7, 0], Box(0.3))

    history = []
    for name, move, target in [
        ("move_a#1", move_a, 0),
        ("move_b#1", move_b, 0),
        ("move_a#2", move_a, 0),  # same particle as move_a's last success
        ("move_b#2", move_b, 7),
        ("move_a#3", move_a, 7),
        ("move_b#3", move_b, 7),  # same particle as move_b's last success
    ]:
        move.to_displace_labels = target
        check_call(move, context, name, history)


def scenario_random():
    """Random targets, many generator states: alternate the two moves."""
    for seed in range(20):
        atoms = Atoms("H6", positions=np.arange(18, dtype=float).reshape(6, 3) * 3.0)
        atoms.set_cell([60.0] * 3)
        context = DisplacementContext(atoms, np.random.default_rng(seed))
        move_a = DisplacementMove([3, 3, 1, 1, -1, -1], Box(0.3))
        move_b = DisplacementMove([-1, -1, -1, -1, 4, 9], Box(0.3))
        history = []
        for step in range(30):
            check_call(move_a, context, f"seed{seed}/move_a#{step}", history)
            check_call(move_b, context, f"seed{seed}/move_b#{step}", history)


def scenario_same_labels():
    """Two moves with the SAME label array (the usual translate + second move set-up)."""
    atoms = Atoms("H6", positions=np.arange(18, dtype=float).reshape(6, 3) * 3.0)
    atoms.set_cell([60.0] * 3)
    context = DisplacementContext(atoms, np.random.default_rng(3))
    labels = [4, 4, 0, 0, 2, -1]
    move_a = DisplacementMove(labels, Box(0.3))
    move_b = DisplacementMove(labels, Box(0.1))
    history = []
    for name, move, target in [
        ("same/move_a#1", move_a, 4),
        ("same/move_b#1", move_b, 2),
        ("same/move_a#2", move_a, 4),
    ]:
        move.to_displace_labels = target
        check_call(move, context, name, history)


def scenario_single_move():
    """A single move object that hits the same particle repeatedly stays correct."""
    atoms = Atoms("H4", positions=np.arange(12, dtype=float).reshape(4, 3) * 3.0)
    atoms.set_cell([60.0] * 3)
    context = DisplacementContext(atoms, np.random.default_rng(5))
    move = DisplacementMove([2, -1, 2, -5], Box(0.3))
    history = []
    for step in range(10):
        check_call(move, context, f"single#{step}", history)


if __name__ == "__main__":
    try:
        scenario_single_move()
        scenario_preselected()
        scenario_same_labels()
        scenario_random()
    except AssertionError as error:
        print("FAIL:", error)
        sys.exit(1)
    print("OK: every displacement move displaced exactly its selected particle")
