"""
C19 demo A -- a rejected trial that first DELETES a molecule and then INSERTS another
one (a plain CompositeMove of two ExchangeMoves, i.e. an identity-swap trial) must
leave the atoms exactly as they were: the deleted atoms are re-inserted at the indices
they were deleted from (indices that refer to the atoms *without* the inserted ones).

Exits 0 when the atoms (order, species and every per-atom array with its dtype) are
restored exactly, non-zero otherwise.
"""

from __future__ import annotations

import sys
import warnings

import numpy as np
from ase.atoms import Atoms
from numpy.random import PCG64, Generator

import quansino  # noqa: F401
from quansino.mc.contexts import ExchangeContext
from quansino.moves.composite import CompositeMove
from quansino.moves.exchange import ExchangeMove

warnings.simplefilter("ignore")


def build_atoms() -> Atoms:
    rng = np.random.default_rng(1234)
    symbols = ["Cu", "Cu", "O", "H", "H", "N", "N", "Ar", "Ne", "Kr"]
    atoms = Atoms(
        symbols,
        positions=rng.uniform(0.0, 12.0, (len(symbols), 3)),
        cell=np.eye(3) * 12.0,
        pbc=True,
    )
    atoms.set_tags(np.arange(len(atoms)) + 10)
    atoms.set_initial_charges(np.linspace(-1.0, 1.0, len(atoms)))
    atoms.set_momenta(rng.normal(size=(len(atoms), 3)))
    atoms.set_array("flags", np.arange(len(atoms)) % 2 == 0, bool)
    atoms.set_array("custom", rng.integers(0, 99, (len(atoms), 2)).astype(np.int32))
    return atoms


def snapshot(atoms: Atoms) -> dict[str, np.ndarray]:
    return {name: array.copy() for name, array in atoms.arrays.items()}


def compare(reference: dict[str, np.ndarray], atoms: Atoms, what: str) -> list[str]:
    problems = []
    if set(reference) != set(atoms.arrays):
        problems.append(
            f"{what}: array names differ {sorted(reference)} != {sorted(atoms.arrays)}"
        )
        return problems
    for name, old in reference.items():
        new = atoms.arrays[name]
        if old.dtype != new.dtype:
            problems.append(f"{what}: dtype of {name!r}: {old.dtype} -> {new.dtype}")
        if old.shape != new.shape or not np.array_equal(old, new):
            if old.ndim == 1 and old.shape == new.shape:
                detail = f": before {old.tolist()}, after {new.tolist()}"
            else:
                detail = ""
            problems.append(f"{what}: array {name!r} not restored{detail}")
    return problems


def one_trial(delete_label: int, order: str) -> list[str]:
    atoms = build_atoms()
    context = ExchangeContext(atoms, Generator(PCG64(7)))
    context.exchange_atoms = Atoms("He", positions=[[0.0, 0.0, 0.0]])

    #          Cu  Cu   O  H  H  N  N  Ar Ne Kr
    labels = [-1, -1, 0, 0, 0, 1, 1, 2, 3, -1]

    deletion = ExchangeMove(labels)
    insertion = ExchangeMove(labels)
    for move in (deletion, insertion):
        move.check_move = lambda *_: True

    deletion.to_delete_label = delete_label
    insertion.to_add_atoms = Atoms("He", positions=[[0.0, 0.0, 0.0]])

    # what a driver does before a trial
    context.last_positions = atoms.get_positions()
    reference = snapshot(atoms)
    n_before = len(atoms)

    moves = [deletion, insertion] if order == "delete-insert" else [insertion]
    trial = CompositeMove(moves)

    assert trial(context), "the trial itself must be valid"

    if order == "delete-insert":
        n_deleted = labels.count(delete_label)
        assert len(atoms) == n_before - n_deleted + 1, len(atoms)
        assert len(context._deleted_indices) == n_deleted
        assert len(context._added_indices) == 1

    # the trial is rejected
    context.revert_state()

    what = f"{order}, deleted label {delete_label}"
    if len(atoms) != n_before:
        return [f"{what}: {n_before} atoms before the trial, {len(atoms)} after revert"]
    return compare(reference, atoms, what)


def main() -> int:
    problems: list[str] = []

    # control: a rejected pure insertion (works with or without the change)
    problems += one_trial(0, "insert-only")

    # rejected deletion + insertion in ONE trial, for several deleted molecules
    for label in (0, 1, 2, 3):
        problems += one_trial(label, "delete-insert")

    if problems:
        print("C19 VIOLATED: a rejected delete+insert trial did not restore the atoms")
        for p in problems:
            print(" -", p)
        return 1

    print("C19 holds: rejected delete+insert trials restore the atoms exactly")
    return 0


if __name__ == "__main__":
    sys.exit(main())
