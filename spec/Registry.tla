----------------------------- MODULE Registry -----------------------------
(* The class registry (registry.py) -- the mechanism the serialization property
   C08 rests on: classes are found again by the name under which they were
   registered.

   The registry is an insertion-ordered map name -> class.  register_class(cls,
   name) binds name to cls (default name: the class's own name); binding a name
   again REPLACES the class and keeps the name's position.  get_class(name)
   returns the bound class or refuses (KeyError); get_class_name(cls) returns the
   FIRST name (in insertion order) currently bound to that very class or refuses;
   get_typed_class(name, base) is get_class plus a subclass test (TypeError).

   Classes: B (a base), D (a subclass of B), X (unrelated).                   *)
EXTENDS Integers, Sequences, FiniteSets, TLC, Json, IOUtils, SequencesExt

MaxLen == IF "REG_LEN" \in DOMAIN IOEnv THEN (IF IOEnv.REG_LEN = "5" THEN 5 ELSE 4) ELSE 4

Classes == {"B", "D", "X"}
NamesOf == {"B", "D", "X", "alias"}            \* a class's own name, or a free alias
IsSub(c, b) == c = b \/ (c = "D" /\ b = "B")

VARIABLES reg,      \* sequence of [name, cls]: insertion order, names unique
          hist, out \* out: result of the last query ("" for registrations)
vars == <<reg, hist, out>>

Init == reg = <<>> /\ hist = <<>> /\ out = ""

Idx(n) == IF \E i \in 1..Len(reg) : reg[i].name = n THEN CHOOSE i \in 1..Len(reg) : reg[i].name = n ELSE 0

Register(c, n) == /\ reg' = IF Idx(n) = 0 THEN Append(reg, [name |-> n, cls |-> c]) ELSE [reg EXCEPT ![Idx(n)] = [name |-> n, cls |-> c]]
                  /\ hist' = Append(hist, <<"register", c, n>>) /\ out' = ""

GetClass(n) == /\ out' = IF Idx(n) = 0 THEN "KeyError" ELSE reg[Idx(n)].cls
               /\ hist' = Append(hist, <<"get_class", n, "">>) /\ UNCHANGED reg

FirstNameOf(c) == IF \E i \in 1..Len(reg) : reg[i].cls = c
                  THEN reg[CHOOSE i \in 1..Len(reg) : reg[i].cls = c /\ \A j \in 1..Len(reg) : reg[j].cls = c => i <= j].name
                  ELSE "KeyError"
GetClassName(c) == /\ out' = FirstNameOf(c)
                   /\ hist' = Append(hist, <<"get_class_name", c, "">>) /\ UNCHANGED reg

GetTyped(n, b) == /\ out' = IF Idx(n) = 0 THEN "KeyError" ELSE IF IsSub(reg[Idx(n)].cls, b) THEN reg[Idx(n)].cls ELSE "TypeError"
                  /\ hist' = Append(hist, <<"get_typed_class", n, b>>) /\ UNCHANGED reg

Next == /\ Len(hist) < MaxLen
        /\ \/ \E c \in Classes : \E n \in {c, "alias"} : Register(c, n)      \* default name or an alias
           \/ \E n \in NamesOf : GetClass(n)
           \/ \E c \in Classes : GetClassName(c)
           \/ \E n \in {"D", "X", "alias"}, b \in {"B", "X"} : GetTyped(n, b)
Spec == Init /\ [][Next]_vars

REG_NamesUnique == \A i, j \in 1..Len(reg) : i # j => reg[i].name # reg[j].name
\* what was registered last under a name is what get_class returns
LastBinding(n) == LET S == {i \in 1..Len(hist) : hist[i][1] = "register" /\ hist[i][3] = n}
                  IN IF S = {} THEN "KeyError" ELSE hist[CHOOSE i \in S : \A j \in S : j <= i][2]
REG_LastRegistrationWins == \A n \in NamesOf : (IF Idx(n) = 0 THEN "KeyError" ELSE reg[Idx(n)].cls) = LastBinding(n)
\* round trip: the name reported for a class leads back to that class
REG_NameRoundTrip == \A c \in Classes : FirstNameOf(c) # "KeyError" => reg[Idx(FirstNameOf(c))].cls = c
\* a typed lookup never returns a class outside the requested family
REG_TypedIsTyped == (Len(hist) > 0 /\ hist[Len(hist)][1] = "get_typed_class" /\ out \in Classes) => IsSub(out, hist[Len(hist)][3])

Emit == (Len(hist) >= 1 /\ hist[Len(hist)][1] # "register") => PrintT("@@" \o ToJson([hist |-> hist, out |-> out]))
=============================================================================
