---- MODULE SerialData ----
\* generated from the introspected catalogue at check time
EXTENDS Sequences

Classes == {"AnisotropicDeformation", "Ball", "Box", "Canonical", "CanonicalCriteria", "CellMove", "CompositeDisplacementMove", "CompositeExchangeMove", "CompositeMove", "CompositeOperation", "DisplacementMove", "ExchangeMove", "GrandCanonical", "GrandCanonicalCriteria", "HamiltonianCanonical", "HamiltonianCanonicalCriteria", "HamiltonianDisplacementMove", "Isobaric", "IsobaricCriteria", "Isotension", "IsotensionCriteria", "IsotropicDeformation", "MonteCarlo", "MoveStorage", "Rotation", "ShapeDeformation", "Sphere", "Translation", "TranslationRotation", "Verlet"}
Params == [c \in Classes |->
  CASE c = "AnisotropicDeformation" -> {"mask", "max_value"}
    [] c = "Ball" -> {"step_size"}
    [] c = "Box" -> {"step_size"}
    [] c = "Canonical" -> {"logging_interval", "max_cycles", "rng_advanced", "seed", "step_count", "temperature"}
    [] c = "CanonicalCriteria" -> {}
    [] c = "CellMove" -> {"apply_constraints", "max_attempts", "scale_atoms"}
    [] c = "CompositeDisplacementMove" -> {}
    [] c = "CompositeExchangeMove" -> {"bias_towards_insert"}
    [] c = "CompositeMove" -> {}
    [] c = "CompositeOperation" -> {}
    [] c = "DisplacementMove" -> {"apply_constraints", "default_label", "labels", "max_attempts"}
    [] c = "ExchangeMove" -> {"apply_constraints", "bias_towards_insert", "default_label", "labels", "max_attempts"}
    [] c = "GrandCanonical" -> {"accessible_volume", "chemical_potential", "exchange_atoms", "logging_interval", "max_cycles", "number_of_exchange_particles", "rng_advanced", "seed", "step_count", "temperature"}
    [] c = "GrandCanonicalCriteria" -> {}
    [] c = "HamiltonianCanonical" -> {"logging_interval", "max_cycles", "rng_advanced", "seed", "step_count", "temperature"}
    [] c = "HamiltonianCanonicalCriteria" -> {}
    [] c = "HamiltonianDisplacementMove" -> {"max_attempts"}
    [] c = "Isobaric" -> {"logging_interval", "max_cycles", "pressure", "rng_advanced", "seed", "step_count", "temperature"}
    [] c = "IsobaricCriteria" -> {}
    [] c = "Isotension" -> {"external_stress", "logging_interval", "max_cycles", "pressure", "rng_advanced", "seed", "step_count", "temperature"}
    [] c = "IsotensionCriteria" -> {}
    [] c = "IsotropicDeformation" -> {"mask", "max_value"}
    [] c = "MonteCarlo" -> {"logging_interval", "max_cycles", "rng_advanced", "seed", "step_count"}
    [] c = "MoveStorage" -> {"interval", "minimum_count", "probability"}
    [] c = "Rotation" -> {}
    [] c = "ShapeDeformation" -> {"mask", "max_value"}
    [] c = "Sphere" -> {"step_size"}
    [] c = "Translation" -> {}
    [] c = "TranslationRotation" -> {}
    [] c = "Verlet" -> {"apply_constraints", "dt", "max_steps"}
]
Role == [c \in Classes |->
  CASE c = "AnisotropicDeformation" -> "operation"
    [] c = "Ball" -> "operation"
    [] c = "Box" -> "operation"
    [] c = "Canonical" -> "driver"
    [] c = "CanonicalCriteria" -> "criteria"
    [] c = "CellMove" -> "move"
    [] c = "CompositeDisplacementMove" -> "move"
    [] c = "CompositeExchangeMove" -> "move"
    [] c = "CompositeMove" -> "move"
    [] c = "CompositeOperation" -> "operation"
    [] c = "DisplacementMove" -> "move"
    [] c = "ExchangeMove" -> "move"
    [] c = "GrandCanonical" -> "driver"
    [] c = "GrandCanonicalCriteria" -> "criteria"
    [] c = "HamiltonianCanonical" -> "driver"
    [] c = "HamiltonianCanonicalCriteria" -> "criteria"
    [] c = "HamiltonianDisplacementMove" -> "move"
    [] c = "Isobaric" -> "driver"
    [] c = "IsobaricCriteria" -> "criteria"
    [] c = "Isotension" -> "driver"
    [] c = "IsotensionCriteria" -> "criteria"
    [] c = "IsotropicDeformation" -> "operation"
    [] c = "MonteCarlo" -> "driver"
    [] c = "MoveStorage" -> "storage"
    [] c = "Rotation" -> "operation"
    [] c = "ShapeDeformation" -> "operation"
    [] c = "Sphere" -> "operation"
    [] c = "Translation" -> "operation"
    [] c = "TranslationRotation" -> "operation"
    [] c = "Verlet" -> "integrator"
]
Children == [c \in Classes |->
  CASE c = "AnisotropicDeformation" -> ""
    [] c = "Ball" -> ""
    [] c = "Box" -> ""
    [] c = "Canonical" -> "table"
    [] c = "CanonicalCriteria" -> ""
    [] c = "CellMove" -> "operation"
    [] c = "CompositeDisplacementMove" -> "moves"
    [] c = "CompositeExchangeMove" -> "moves"
    [] c = "CompositeMove" -> "moves"
    [] c = "CompositeOperation" -> "operations"
    [] c = "DisplacementMove" -> "operation"
    [] c = "ExchangeMove" -> "operation"
    [] c = "GrandCanonical" -> "table"
    [] c = "GrandCanonicalCriteria" -> ""
    [] c = "HamiltonianCanonical" -> "table"
    [] c = "HamiltonianCanonicalCriteria" -> ""
    [] c = "HamiltonianDisplacementMove" -> "integrator"
    [] c = "Isobaric" -> "table"
    [] c = "IsobaricCriteria" -> ""
    [] c = "Isotension" -> "table"
    [] c = "IsotensionCriteria" -> ""
    [] c = "IsotropicDeformation" -> ""
    [] c = "MonteCarlo" -> "table"
    [] c = "MoveStorage" -> "storage"
    [] c = "Rotation" -> ""
    [] c = "ShapeDeformation" -> ""
    [] c = "Sphere" -> ""
    [] c = "Translation" -> ""
    [] c = "TranslationRotation" -> ""
    [] c = "Verlet" -> ""
]
====
