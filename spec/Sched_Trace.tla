--------------------------- MODULE Sched_Trace ---------------------------
(* Trace validation for C09: TRACE_FILE is a JSON array of records
     {kind: "step",  table: [{name, e:{interval, weight, min}}...], cycles, step, emitted: [...]}
     {kind: "add",   table: [...before...], cycles, min: m, refused: bool}
   recorded from real MonteCarlo objects.  TLC judges every record with the
   contract of Sched.tla and prints one line per rejected record.           *)
EXTENDS Sched

Records == JsonDeserialize(IOEnv.TRACE_FILE)

VARIABLES k, nbad
tvars == <<k, nbad, vars>>

Judge(r) ==
    IF r.kind = "step" THEN Allowed(r.table, r.cycles, r.step, r.emitted)
    ELSE r.refused = (SumMin(r.table) + r.min > r.cycles)

TInit == /\ k = 0 /\ nbad = 0
         \* Sched's own variables are not used by the judge
         /\ phase = "trace" /\ table = <<>> /\ cycles = 0 /\ refused = 0 /\ step = 0 /\ emitted = <<>> /\ forcedLeft = <<>>
TNext == /\ k < Len(Records)
         /\ k' = k + 1
         /\ UNCHANGED vars
         /\ LET r == Records[k + 1] IN
              IF Judge(r) THEN nbad' = nbad
              ELSE /\ PrintT("@@" \o ToJson([idx |-> k + 1, kind |-> r.kind]))
                   /\ nbad' = nbad + 1
TDone == k = Len(Records) => TRUE
TSpec == TInit /\ [][TNext]_tvars
Consumed == TLCGet("stats").diameter - 1 = Len(Records)
=============================================================================
