SPECIFICATION Spec
INVARIANT H_PlainAligned
INVARIANT H_WidthFromData
INVARIANT H_DeviationsNamed
INVARIANT H_Structure
INVARIANT EmitAll
