SPECIFICATION Spec
INVARIANT C14_Exact
INVARIANT C14_Reversible
INVARIANT C14_ForceEvaluations
POSTCONDITION Export
