---------------------------- MODULE Proposal ----------------------------
(* C10 -- proposal operations stay within their advertised geometry and are
   symmetric (operations/displacement.py, operations/cell.py,
   operations/composite.py).

   Two parts.

   (1) The mask semantics of the deformation operations is discrete: for a
       Boolean 3x3 mask and a raw gradient G the result is
            F_ij = G_ij   where mask_ij,     F_ij = delta_ij   where ~mask_ij.
       TLC checks the contract for all 512 masks on a symbolic G.

   (2) The contract of every operation as the guard of a Propose action.  The
       real-valued sub-terms (norm <= step, rigid, centre kept, det = 1, ...)
       are numeric predicates evaluated by the projection (harness/c10.py,
       tolerances stated there); a recorded call is a behaviour of this module
       iff every predicate its operation requires is TRUE.  Proposal_Trace
       judges recorded calls with Required / Holds below.                  *)
EXTENDS Integers, Sequences, FiniteSets, TLC, Json, IOUtils, SequencesExt

OutFile == IF "PROP_OUT" \in DOMAIN IOEnv THEN IOEnv.PROP_OUT ELSE ""

(* ---- (1) masks -------------------------------------------------------------- *)
Idx == (1..3) \X (1..3)
Masks == [Idx -> BOOLEAN]
Delta(ij) == IF ij[1] = ij[2] THEN 1 ELSE 0
\* symbolic raw gradient: entry ij is the token <<"g", i, j>>; the identity entries are the integers 0/1
Blend(mask) == [ij \in Idx |-> IF mask[ij] THEN <<"g", ij[1], ij[2]>> ELSE Delta(ij)]

VARIABLES mask, F
vars == <<mask, F>>
Init == mask \in Masks /\ F = <<>>
Apply == F = <<>> /\ F' = Blend(mask) /\ UNCHANGED mask
Next == Apply
Spec == Init /\ [][Next]_vars

C10_MaskedOutIsIdentity == F # <<>> => \A ij \in Idx : ~mask[ij] => F[ij] = Delta(ij)
C10_UnmaskedIsRaw == F # <<>> => \A ij \in Idx : mask[ij] => F[ij] = <<"g", ij[1], ij[2]>>

(* ---- (2) contracts ------------------------------------------------------------ *)
Ops == {"Ball", "Sphere", "Box", "Translation", "Rotation", "TranslationRotation", "Composite",
        "IsotropicDeformation", "AnisotropicDeformation", "ShapeDeformation"}

Required(op, defaultMask) ==
    CASE op = "Ball"        -> {"finite", "shape", "norm_le_step"}
      [] op = "Sphere"      -> {"finite", "shape", "norm_eq_step"}
      [] op = "Box"         -> {"finite", "shape", "components_within_step"}
      [] op = "Translation" -> {"finite", "shape", "rigid", "centroid_in_cell"}
      [] op = "Rotation"    -> {"finite", "shape", "rigid", "com_kept"}
      [] op = "TranslationRotation" -> {"finite", "shape", "rigid"}
      [] op = "Composite"   -> {"finite", "sum_of_parts"}
      [] op = "IsotropicDeformation" -> {"finite", "masked_identity", "scalar_times_identity_on_mask"} \cup (IF defaultMask THEN {"symmetric", "positive_definite"} ELSE {})
      [] op = "AnisotropicDeformation" -> {"finite", "masked_identity"} \cup (IF defaultMask THEN {"symmetric", "positive_definite"} ELSE {})
      [] op = "ShapeDeformation" -> {"finite", "masked_identity"} \cup (IF defaultMask THEN {"symmetric", "positive_definite", "unit_determinant"} ELSE {})

\* a recorded call: [op, default_mask, preds: record of BOOLEAN]
Holds(ev) == \A q \in Required(ev.op, ev.default_mask) : q \in DOMAIN ev.preds /\ ev.preds[q]
Failing(ev) == {q \in Required(ev.op, ev.default_mask) : ~(q \in DOMAIN ev.preds /\ ev.preds[q])}

Export ==
    IF TLCGet("stats").distinct < 0 \/ OutFile = "" THEN TRUE
    ELSE ndJsonSerialize(OutFile, SetToSeq({[mask |-> [i \in 1..3 |-> [j \in 1..3 |-> m[<<i, j>>]]]] : m \in Masks}))
=============================================================================
