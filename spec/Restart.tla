----------------------------- MODULE Restart -----------------------------
(* C07 -- restarting from any saved step continues the same trajectory.

   A simulation is a set of *fields* that influence the future (atoms,
   generator state, step counter, ensemble parameters, reference energies,
   every parameter of every move / operation / criteria in the move table).
   One step maps the whole state to the next state deterministically.  After
   every step the restart observer saves a dictionary; Restart(k) replaces the
   live simulation by FromDict(Decode(Encode(ToDict(state_k)))).

   The property is that Restart is a stuttering step of the future-relevant
   state.  It holds iff the saved dictionary determines every field: the model
   tracks, per field, whether the live simulation still agrees with its
   uninterrupted twin ("same") or has been reset to a default by a restart
   ("lost"); once a lost field is *used* by a step the trajectories diverge.

   What the model contributes is (i) the definition of future-relevant and
   (ii) the enumeration <ensemble, move-table shape, which fields are
   non-default, restart point k, run length n>; each enumerated tuple is
   replayed on the real package from the bytes of the real restart file.   *)
EXTENDS Integers, Sequences, FiniteSets, TLC, Json, IOUtils, SequencesExt

OutFile == IF "RST_OUT" \in DOMAIN IOEnv THEN IOEnv.RST_OUT ELSE ""
MaxN == IF "RST_N" \in DOMAIN IOEnv THEN (IF IOEnv.RST_N = "6" THEN 6 ELSE 4) ELSE 4

Ensembles == {"Canonical", "HamiltonianCanonical", "Isobaric", "Isotension", "GrandCanonical"}

\* move-table shapes offered per ensemble (names interpreted by the harness)
Tables(e) ==
    CASE e = "Canonical" -> {"disp_ball", "disp_box_masked_labels", "disp_sphere_x2", "disp_plus_disp", "disp_compop", "disp_rotation_molecule", "two_entries_interval"}
      [] e = "HamiltonianCanonical" -> {"ham_verlet", "ham_plus_disp_entry"}
      [] e = "Isobaric" -> {"cell_iso", "cell_aniso_masked", "cell_shape_noscale", "cell_and_disp"}
      [] e = "Isotension" -> {"cell_aniso_stress", "cell_shape_masked"}
      [] e = "GrandCanonical" -> {"exch_atomic", "exch_molecular", "exch_x2", "exch_plus_exch_bias", "exch_and_disp", "exch_default_label", "exch_default_label_zero", "same_move_two_names", "shared_exch_in_composite", "exch_and_coarse_disp", "exch_then_disp_one_trial"}

\* the fields that influence the future
Common == {"atoms", "rng", "step_count", "max_cycles", "move_table", "move_params", "operation_params", "criteria", "schedule_params"}
FieldsOf(e) ==
    Common \cup
    CASE e = "Canonical" -> {"temperature", "last_energy", "last_positions"}
      [] e = "HamiltonianCanonical" -> {"temperature", "last_energy", "last_positions", "momenta", "integrator_params"}
      [] e = "Isobaric" -> {"temperature", "last_energy", "last_positions", "pressure", "last_cell", "mask", "scale_atoms"}
      [] e = "Isotension" -> {"temperature", "last_energy", "last_positions", "pressure", "last_cell", "mask", "scale_atoms", "external_stress"}
      [] e = "GrandCanonical" -> {"temperature", "last_energy", "last_positions", "chemical_potential", "particle_count", "accessible_volume", "exchange_species", "labels", "default_label", "insert_bias", "preselection"}

\* the design's claim: the restart dictionary carries every future-relevant field ...
Transient(e) == IF e = "GrandCanonical" THEN {"preselection"} ELSE {}
Saved(e) == FieldsOf(e) \ Transient(e)
\* ... except the pre-selections of a move (to_add_atoms / to_delete_label / to_displace_labels), which are not serialized
\* because every call of a move -- stand-alone or as a member of a composite -- leaves them at their default (None):
\* at every point where the restart observer can run they carry no information.  (A rebuilt table holds fresh, distinct
\* move objects, so a pre-selection that survived a call in a move object shared by two entries would be lost.)
DefaultAtSavePoints(e) == Transient(e)

VARIABLES ens, table, n, k, step, status, restarted

vars == <<ens, table, n, k, step, status, restarted>>

Init == /\ ens \in Ensembles
        /\ table \in Tables(ens)
        /\ n \in 1..MaxN
        /\ k \in 0..n
        /\ step = 0 /\ restarted = FALSE
        /\ status = [f \in FieldsOf(ens) |-> "same"]

StepOnce == /\ step < n
            /\ (step = k => restarted)          \* the restart point is passed only through Restart
            /\ step' = step + 1
            \* a step reads every field: one lost field makes the whole future state differ
            /\ status' = IF \E f \in DOMAIN status : status[f] # "same"
                         THEN [f \in DOMAIN status |-> "diverged"] ELSE status
            /\ UNCHANGED <<ens, table, n, k, restarted>>

Restart == /\ step = k /\ ~restarted
           /\ restarted' = TRUE
           /\ status' = [f \in DOMAIN status |-> IF f \in Saved(ens) \cup DefaultAtSavePoints(ens) THEN status[f] ELSE "lost"]
           /\ UNCHANGED <<ens, table, n, k, step>>

Next == StepOnce \/ Restart
Spec == Init /\ [][Next]_vars

C07_RestartIsStuttering == \A f \in DOMAIN status : status[f] = "same"

Tuples == UNION {{[ens |-> e, table |-> t, n |-> m] : t \in Tables(e), m \in {MaxN}} : e \in Ensembles}
Export ==
    IF TLCGet("stats").distinct < 0 \/ OutFile = "" THEN TRUE
    ELSE ndJsonSerialize(OutFile, SetToSeq(Tuples))
=============================================================================
