------------------------- MODULE Proposal_Trace -------------------------
(* TRACE_FILE: JSON array of recorded operation calls
     {op, default_mask, preds: {name: bool, ...}}
   judged one by one with the contracts of Proposal.tla. *)
EXTENDS Proposal
Calls == JsonDeserialize(IOEnv.TRACE_FILE)
VARIABLES i
TInit == i = 0 /\ mask = [ij \in Idx |-> TRUE] /\ F = <<>>
TNext == /\ i < Len(Calls) /\ i' = i + 1 /\ UNCHANGED vars
         /\ LET ev == Calls[i + 1] IN
              ~Holds(ev) => PrintT("@@" \o ToJson([idx |-> i + 1, op |-> ev.op, failing |-> Failing(ev)]))
TSpec == TInit /\ [][TNext]_<<i, vars>>
Consumed == TLCGet("stats").diameter - 1 = Len(Calls)
=============================================================================
