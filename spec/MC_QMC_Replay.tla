--------------------------- MODULE MC_QMC_Replay ---------------------------
(* MC_QMC with a history variable: every complete behaviour (MaxTrials trials) is
   printed as one JSON line -- the set-up chosen in Init, the arguments of every
   action and the specification's state after it -- and replayed into the real
   engine by harness/qreplay.py (spec -> code direction of the binding).     *)
EXTENDS MC_QMC, Json

VARIABLE hist
rvars == <<vars, hist>>

Proj(st) == [n |-> Len(st.atoms), pos |-> [i \in 1..Len(st.atoms) |-> st.atoms[i].pos], cell |-> st.cell, cons |-> SetToSortSeq(st.cons, <),
             lastPos |-> st.lastPos, lastCell |-> st.lastCell, lastE |-> st.lastE, lastRes |-> st.lastRes,
             calcAtoms |-> st.calcAtoms, calcRes |-> st.calcRes, added |-> st.added, deleted |-> st.deleted,
             pdelta |-> st.pdelta, nexch |-> st.nexch, labels |-> st.labels, presel |-> st.presel, evals |-> st.evals]

\* (the set-up in which two exchange moves act in one trial is bound in the other direction only -- the recorded runs with a
\*  "del2" entry, qscen.py: the replay harness scripts one exchange element per plain composite)
Replayed(su) == ~(su.mobj["m1"].kind = "exch" /\ su.mobj["m2"].kind = "exch")
RInit == Init /\ Replayed(setup) /\ hist = << [a |-> "init", name |-> "", subs |-> <<>>, verdict |-> "", s |-> Proj(s)] >>

\* (restarts are bound in the other direction -- recorded runs that start from a rebuilt simulation, qscen.restart_prologue --
\*  because a rebuilt table no longer shares move objects between its entries the way these behaviours' set-ups do)
RNext == /\ Trial
         /\ hist' = IF pc' = "idle" THEN hist
                    ELSE Append(hist, [a |-> pc', name |-> cur', subs |-> subsv', verdict |-> verdict', s |-> Proj(s')])

Complete == pc = "idle" /\ trials = MaxTrials
Emit == Complete => PrintT("@@" \o ToJson([driver |-> setup.driver, ctx |-> setup.ctx, tmplLen |-> setup.tmplLen, fixcom |-> setup.fixcom,
                                          mobj |-> setup.mobj, moves |-> setup.moves, hist |-> hist]))
RSpec == RInit /\ [][RNext]_rvars
=============================================================================
