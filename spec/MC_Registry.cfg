SPECIFICATION Spec
INVARIANT REG_NamesUnique
INVARIANT REG_LastRegistrationWins
INVARIANT REG_NameRoundTrip
INVARIANT REG_TypedIsTyped
INVARIANT Emit
