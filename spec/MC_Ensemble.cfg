SPECIFICATION Spec
INVARIANT C01_DetailedBalance
INVARIANT C01_RejectKeepsState
INVARIANT C01_Reversible
