CONSTANTS
  MaxN = 4
SPECIFICATION Spec
INVARIANT C19_Inverse
INVARIANT C19_DeleteRemoves
INVARIANT C19_Partition
POSTCONDITION Export
