---------------------------- MODULE Algebra ----------------------------
(* C17 -- combining moves and operations with + and * .

   An expression tree over elementary moves is

       Leaf(kind)  |  Add(l, r)  |  Mul(a, n)

   The *property* is Meaning(t): the flattened sequence of leaf positions
   (in order, with multiplicity) together with the specialised composite
   type exactly when every element is of one displacement kind ("disp")
   or one exchange kind ("exch").

   Dispatch(t) is a clause-by-clause transcription of the case analysis in
   BaseMove.__add__/__mul__ (moves/core.py) and CompositeMove.__add__/
   __mul__ (moves/composite.py): it evaluates the tree bottom-up to a
   *value* (an elementary move, or a composite with a concrete type) the
   way Python does.  TLC checks  Dispatch(t) = Meaning(t)  for every tree
   up to the size bound; the same trees (with TLC's expected value) are
   replayed into the real classes by harness/c17.py.

   The second half specifies CompositeMove.__call__ as a little state
   machine (each element once, in order, result = some element succeeded). *)
EXTENDS Naturals, Sequences, FiniteSets, TLC, Json, IOUtils, SequencesExt

CONSTANTS MaxSize,      \* leaves + Mul nodes per tree
          MaxMul,       \* multipliers 1..MaxMul
          Domain,       \* "moves" or "operations"
          Pinned17      \* TRUE: transcribe the *pinned* tree's BaseMove.__add__ (metaclass comparison,
                        \*       defect 17 of DESIGN.md section 7); FALSE: the repaired clause

\* ndjson file the cases are written to (environment variable ALG_OUT; "" = none)
OutFile == IF "ALG_OUT" \in DOMAIN IOEnv THEN IOEnv.ALG_OUT ELSE ""

MoveKinds == {"disp", "exch", "cell", "ham", "generic"}
OpKinds   == {"op"}
Kinds     == IF Domain = "moves" THEN MoveKinds ELSE OpKinds

(* ---- trees ---------------------------------------------------------- *)
Leaf(k)    == [t |-> "leaf", k |-> k]
Add(l, r)  == [t |-> "add", l |-> l, r |-> r]
Mul(a, n)  == [t |-> "mul", a |-> a, n |-> n]

RECURSIVE TreesOfSize(_)
TreesOfSize(s) ==
    IF s = 1 THEN {Leaf(k) : k \in Kinds}
    ELSE UNION {{Add(l, r) : l \in TreesOfSize(i), r \in TreesOfSize(s - i)} : i \in 1..(s - 1)}
         \cup {Mul(a, n) : a \in TreesOfSize(s - 1), n \in 1..MaxMul}

AllTrees == UNION {TreesOfSize(s) : s \in 1..MaxSize}

(* ---- the property: Meaning ------------------------------------------- *)
(* leaves are identified by their position in the in-order traversal;
   Flat(t, base) returns the sequence of <<position, kind>> *)
RECURSIVE NLeaves(_)
NLeaves(t) == CASE t.t = "leaf" -> 1
                [] t.t = "add"  -> NLeaves(t.l) + NLeaves(t.r)
                [] t.t = "mul"  -> NLeaves(t.a)

RECURSIVE Repeat(_, _)
Repeat(s, n) == IF n = 0 THEN <<>> ELSE s \o Repeat(s, n - 1)

RECURSIVE Flat(_, _)
Flat(t, base) ==
    CASE t.t = "leaf" -> << <<base + 1, t.k>> >>
      [] t.t = "add"  -> Flat(t.l, base) \o Flat(t.r, base + NLeaves(t.l))
      [] t.t = "mul"  -> Repeat(Flat(t.a, base), t.n)

KindsOf(seq) == {seq[i][2] : i \in 1..Len(seq)}

SpecialType(seq) ==
    IF Domain = "operations" THEN "cop"
    ELSE IF KindsOf(seq) = {"disp"} THEN "cdisp"
    ELSE IF KindsOf(seq) = {"exch"} THEN "cexch"
    ELSE "plain"

(* a bare leaf stays an elementary move; everything else is a composite *)
Meaning(t) ==
    IF t.t = "leaf" THEN [comp |-> FALSE, type |-> t.k, elems |-> Flat(t, 0)]
    ELSE [comp |-> TRUE, type |-> SpecialType(Flat(t, 0)), elems |-> Flat(t, 0)]

(* ---- the design as implemented: Dispatch ------------------------------ *)
(* composite_move_type of an elementary move (set in the constructors) *)
CMT(k) == CASE k = "disp" -> "cdisp"
            [] k = "exch" -> "cexch"
            [] OTHER      -> "plain"      \* CompositeMove[...] alias: builds a plain CompositeMove

\* `self.composite_move_type is other.composite_move_type`: identical class
\* objects for disp/exch; for the other kinds both sides build a plain
\* CompositeMove whichever branch is taken, so the identity test is immaterial.
SameAlias(a, b) == TRUE

\* BaseMove.__add__(self, other)            moves/core.py
BaseAdd(a, b) ==
    IF b.comp
    THEN \* other is a CompositeMove: keep self's specialised type iff it is other's type
         \* pinned tree: `type(self.composite_move_type) is type(other)` compares the
         \* metaclass `type` with a class and is never true
         IF ~Pinned17 /\ CMT(a.type) = b.type /\ CMT(a.type) # "plain"
         THEN [comp |-> TRUE, type |-> CMT(a.type), elems |-> a.elems \o b.elems]
         ELSE [comp |-> TRUE, type |-> "plain", elems |-> a.elems \o b.elems]
    ELSE \* other is an elementary move
         IF CMT(a.type) = CMT(b.type) /\ SameAlias(a, b)
         THEN [comp |-> TRUE, type |-> CMT(b.type), elems |-> a.elems \o b.elems]
         ELSE [comp |-> TRUE, type |-> "plain", elems |-> a.elems \o b.elems]

\* CompositeMove.__add__(self, other)       moves/composite.py
CompAdd(a, b) ==
    IF b.comp
    THEN IF a.type = b.type
         THEN [comp |-> TRUE, type |-> a.type, elems |-> a.elems \o b.elems]
         ELSE [comp |-> TRUE, type |-> "plain", elems |-> a.elems \o b.elems]
    ELSE IF a.type = CMT(b.type) /\ a.type # "plain"
         THEN [comp |-> TRUE, type |-> CMT(b.type), elems |-> a.elems \o b.elems]
         ELSE [comp |-> TRUE, type |-> "plain", elems |-> a.elems \o b.elems]

\* BaseMove.__mul__ / CompositeMove.__mul__
ValMul(a, n) ==
    IF a.comp THEN [comp |-> TRUE, type |-> a.type, elems |-> Repeat(a.elems, n)]
    ELSE [comp |-> TRUE, type |-> CMT(a.type), elems |-> Repeat(a.elems, n)]

\* operations: BaseOperation.__add__/__mul__, CompositeOperation.__add__/__mul__
OpAdd(a, b) == [comp |-> TRUE, type |-> "cop", elems |-> a.elems \o b.elems]
OpMul(a, n) == [comp |-> TRUE, type |-> "cop", elems |-> Repeat(a.elems, n)]

RECURSIVE Eval(_, _)
Eval(t, base) ==
    CASE t.t = "leaf" -> [comp |-> FALSE, type |-> t.k, elems |-> << <<base + 1, t.k>> >>]
      [] t.t = "add"  ->
            LET a == Eval(t.l, base)
                b == Eval(t.r, base + NLeaves(t.l))
            IN IF Domain = "operations" THEN OpAdd(a, b)
               ELSE IF a.comp THEN CompAdd(a, b) ELSE BaseAdd(a, b)
      [] t.t = "mul"  ->
            IF Domain = "operations" THEN OpMul(Eval(t.a, base), t.n)
            ELSE ValMul(Eval(t.a, base), t.n)

Dispatch(t) == Eval(t, 0)

(* n must be a positive integer: the refusal rule *)
MulArgs == {"zero", "negative", "float", "string", "none", "one", "two"}
Refused(arg) == arg \notin {"one", "two"}

(* ---- state machine --------------------------------------------------- *)
(* phase "built": an expression has been evaluated (initial states = all
   trees).  A plain composite can then be *called*: each element once, in
   order; every element returns a scripted truth value. *)
VARIABLES tree, phase, idx, called, truth, result

vars == <<tree, phase, idx, called, truth, result>>

Elems == Dispatch(tree).elems

Init == /\ tree \in AllTrees
        /\ phase = "built"
        /\ idx = 0 /\ called = <<>> /\ truth = <<>> /\ result = FALSE

StartCall ==
    /\ phase = "built"
    /\ Dispatch(tree).comp /\ Dispatch(tree).type = "plain" /\ Len(Elems) <= 3
    /\ phase' = "calling" /\ idx' = 1
    /\ UNCHANGED <<tree, called, truth, result>>

CallElem(b) ==
    /\ phase = "calling" /\ idx <= Len(Elems)
    /\ called' = Append(called, Elems[idx][1])
    /\ truth' = Append(truth, b)
    /\ idx' = idx + 1
    /\ UNCHANGED <<tree, phase, result>>

Return ==
    /\ phase = "calling" /\ idx = Len(Elems) + 1
    /\ result' = (\E i \in 1..Len(truth) : truth[i])
    /\ phase' = "returned"
    /\ UNCHANGED <<tree, idx, called, truth>>

Next == StartCall \/ (\E b \in BOOLEAN : CallElem(b)) \/ Return

Spec == Init /\ [][Next]_vars

(* ---- properties ------------------------------------------------------ *)
C17_Faithful == Dispatch(tree) = Meaning(tree)

C17_Multiplicity ==    \* flattened length is the product/sum structure
    Len(Meaning(tree).elems) >= 1

C17_CallOrder ==
    phase = "returned" =>
        /\ called = [i \in 1..Len(Elems) |-> Elems[i][1]]
        /\ result = (\E i \in 1..Len(truth) : truth[i])

C17_NoShortCircuit ==   \* while calling, nothing is skipped
    phase = "calling" => called = [i \in 1..(idx - 1) |-> Elems[i][1]]

(* ---- export of the cases for replay ---------------------------------- *)
Case(t) == [tree |-> t, meaning |-> Meaning(t)]

Export ==
    IF TLCGet("stats").distinct < 0 \/ OutFile = "" THEN TRUE
    ELSE ndJsonSerialize(OutFile, SetToSeq({Case(t) : t \in AllTrees}))
=============================================================================
