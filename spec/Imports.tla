----------------------------- MODULE Imports -----------------------------
(* C08 (first part) -- "in a fresh interpreter whichever public module of the
   package was imported first".

   CPython's import machine, for the modules of the package only:
     status[m]  absent / init (executing, in sys.modules) / done
     bound[m]   the names bound so far in m's namespace
     stack      the modules being executed, with their program counters
   The top-level statement list of every module (ImportsData, generated from
   the working tree by harness/extract_imports.py at check time) is executed
   statement by statement:
     def   binds names
     imp   `import T` / `from T import n1, n2`: every package on the path to T
           is imported first (its __init__ runs); then each name must be bound
           in T *now*, or be a submodule of T (imported on demand); a name that
           is neither -- the partially-initialised-module case -- is the
           ImportError.
   Init chooses the first import; the machine is deterministic afterwards.  *)
EXTENDS Integers, Sequences, FiniteSets, TLC, Json, ImportsData

VARIABLES first, stack, status, bound, err

vars == <<first, stack, status, bound, err>>

Main == "__main__"
StmtsOf(m) == IF m = Main THEN << [k |-> "imp", target |-> first, names |-> <<>>, line |-> 0] >> ELSE Stmts[m]

Init == /\ first \in Public
        /\ stack = << [mod |-> Main, pc |-> 1] >>
        /\ status = [m \in Mods |-> "absent"]
        /\ bound = [m \in Mods |-> {}]
        /\ err = ""

Top == stack[Len(stack)]
Push(m) == /\ stack' = Append(stack, [mod |-> m, pc |-> 1])
           /\ status' = [status EXCEPT ![m] = "init"]
           /\ UNCHANGED <<first, bound, err>>

Advance(newBound) ==
    /\ stack' = [stack EXCEPT ![Len(stack)].pc = @ + 1]
    /\ bound' = newBound
    /\ UNCHANGED <<first, status, err>>

BindIn(b, m, names) == IF m = Main THEN b ELSE [b EXCEPT ![m] = @ \cup names]
QRange(q) == {q[i] : i \in 1..Len(q)}

\* first package/module on the dotted path to T that has not been imported yet
FirstAbsent(T) == LET c == Chain[T]
                      idx == {i \in 1..Len(c) : status[c[i]] = "absent"}
                  IN IF idx = {} THEN "" ELSE c[CHOOSE i \in idx : \A j \in idx : i <= j]

\* a name that is a submodule of T: <<name, module>> \in Sub[T]
SubOf(T, n) == IF \E p \in Sub[T] : p[1] = n THEN (CHOOSE p \in Sub[T] : p[1] = n)[2] ELSE ""

Exec ==
    /\ err = "" /\ Len(stack) > 0
    /\ LET fr == Top
           ss == StmtsOf(fr.mod)
       IN IF fr.pc > Len(ss)
          THEN \* module finished: done, popped, bound as attribute of its parent package
               /\ stack' = SubSeq(stack, 1, Len(stack) - 1)
               /\ status' = IF fr.mod = Main THEN status ELSE [status EXCEPT ![fr.mod] = "done"]
               /\ bound' = IF fr.mod = Main \/ Parent[fr.mod] = "" THEN bound ELSE [bound EXCEPT ![Parent[fr.mod]] = @ \cup {Short[fr.mod]}]
               /\ UNCHANGED <<first, err>>
          ELSE LET st == ss[fr.pc] IN
               IF st.k = "def" THEN Advance(BindIn(bound, fr.mod, QRange(st.names)))
               ELSE LET T == st.target
                        fa == FirstAbsent(T)
                    IN IF fa # "" THEN Push(fa)
                       ELSE LET missing == {i \in 1..Len(st.names) :
                                               /\ st.names[i] \notin bound[T]
                                               /\ (SubOf(T, st.names[i]) = "" \/ status[SubOf(T, st.names[i])] = "absent")}
                            IN IF missing = {} THEN Advance(BindIn(bound, fr.mod, QRange(st.names)))
                               ELSE LET i == CHOOSE x \in missing : \A y \in missing : x <= y
                                        n == st.names[i]
                                    IN IF SubOf(T, n) # "" THEN Push(SubOf(T, n))
                                       ELSE /\ err' = fr.mod        \* ImportError: cannot import name n from partially initialised T
                                            /\ PrintT("@@" \o ToJson([first |-> first, ok |-> FALSE, importer |-> fr.mod, target |-> T, name |-> n, line |-> st.line,
                                                                      stack |-> [j \in 1..Len(stack) |-> stack[j].mod]]))
                                            /\ UNCHANGED <<first, stack, status, bound>>

Done == /\ err = "" /\ Len(stack) = 0 /\ first # ""
        /\ PrintT("@@" \o ToJson([first |-> first, ok |-> TRUE, importer |-> "", target |-> "", name |-> "", line |-> 0, stack |-> <<>>]))
        /\ first' = "" /\ UNCHANGED <<stack, status, bound, err>>

Next == Exec \/ Done
Spec == Init /\ [][Next]_vars

C08_NoImportError == err = ""
=============================================================================
