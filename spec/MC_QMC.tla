------------------------------ MODULE MC_QMC ------------------------------
(* Exhaustive model of the Monte Carlo engine: QMC.tla's operators with the
   arguments (which entry, which label, insert or delete, veto, verdict)
   quantified existentially.  Fresh tokens come from a counter.  The move
   table, the initial labelling, the constrained atoms and the context kind are
   chosen in Init.  TLC checks, in every reachable state, the properties that
   QMC_Trace evaluates on recorded runs:

     C03  a rejected / failed trial restores atoms, cell, constraints and leaves no pending bookkeeping
     C04  energies, remembered positions / cell, calculator cache belong to the current configuration;
          at most one evaluation per trial
     C05  labels of every distinct move stay aligned; the particle counter follows accepted exchanges;
          the template is untouched
     C11  a displacement changes only atoms of the chosen non-negative label; a composite never repeats a label
     C12  atoms fixed by FixAtoms keep their position tokens                                           *)
EXTENDS QMC

CONSTANTS MaxTrials, MaxAtoms

VARIABLES setup, s, pre, pc, cur, subsv, verdict, trials, fresh, accIns, accDel, nexch0

vars == <<setup, s, pre, pc, cur, subsv, verdict, trials, fresh, accIns, accDel, nexch0>>

NoPre == <<NoLab, NoLab, NoLab>>

(* ---- move tables ----------------------------------------------------------- *)
Mobj(kind, def, scale) == [kind |-> kind, nonzero |-> TRUE, defLabel |-> def, applyCons |-> TRUE, scale |-> scale]
Entry(ct, el, ham) == [ctype |-> ct, elems |-> el, hasHam |-> ham]

Setups ==
  { \* canonical: single displacement, d*2, d1+d2 (different labellings)
    [driver |-> "Canonical", ctx |-> "disp", tmplLen |-> 0, fixcom |-> FALSE,
     mobj |-> [m1 |-> Mobj("disp", NoLab, FALSE), m2 |-> Mobj("disp", NoLab, FALSE)],
     moves |-> [a |-> Entry("single", <<"m1">>, FALSE), b |-> Entry("cdisp", <<"m1", "m1">>, FALSE), c |-> Entry("cdisp", <<"m1", "m2">>, FALSE)]],
    \* canonical with a fixed centre of mass: a successful displacement shifts every atom, a vetoed one none
    [driver |-> "Canonical", ctx |-> "disp", tmplLen |-> 0, fixcom |-> TRUE,
     mobj |-> [m1 |-> Mobj("disp", NoLab, FALSE), m2 |-> Mobj("disp", NoLab, FALSE)],
     moves |-> [a |-> Entry("single", <<"m1">>, FALSE), b |-> Entry("cdisp", <<"m1", "m1">>, FALSE), c |-> Entry("single", <<"m2">>, FALSE)]],
    \* grand canonical with a composite exchange move (the same object twice) next to the single move
    [driver |-> "GrandCanonical", ctx |-> "exch", tmplLen |-> 1, fixcom |-> FALSE,
     mobj |-> [m1 |-> Mobj("exch", NoLab, FALSE), m2 |-> Mobj("disp", NoLab, FALSE)],
     moves |-> [a |-> Entry("cexch", <<"m1", "m1">>, FALSE), b |-> Entry("single", <<"m1">>, FALSE), c |-> Entry("single", <<"m2">>, FALSE)]],
    \* grand canonical: ONE trial that exchanges a particle and displaces one (plain composites, both orders): a displacement
    \* after a deletion addresses the atoms that are left
    [driver |-> "GrandCanonical", ctx |-> "exch", tmplLen |-> 1, fixcom |-> FALSE,
     mobj |-> [m1 |-> Mobj("exch", NoLab, FALSE), m2 |-> Mobj("disp", NoLab, FALSE)],
     moves |-> [a |-> Entry("plain", <<"m1", "m2">>, FALSE), b |-> Entry("plain", <<"m2", "m1">>, FALSE)]],
    \* grand canonical: ONE trial in which two exchange moves act one after the other (a plain composite of two distinct
    \* objects with their own label arrays): the second deletion addresses the atoms that are left
    [driver |-> "GrandCanonical", ctx |-> "exch", tmplLen |-> 1, fixcom |-> FALSE,
     mobj |-> [m1 |-> Mobj("exch", NoLab, FALSE), m2 |-> Mobj("exch", NoLab, FALSE)],
     moves |-> [a |-> Entry("plain", <<"m1", "m2">>, FALSE)]],
    \* isobaric: cell move (scaling), displacement, plain composite cell + displacement
    [driver |-> "Isobaric", ctx |-> "deform", tmplLen |-> 0, fixcom |-> FALSE,
     mobj |-> [m1 |-> Mobj("disp", NoLab, FALSE), m2 |-> Mobj("cell", NoLab, TRUE)],
     moves |-> [a |-> Entry("single", <<"m2">>, FALSE), b |-> Entry("single", <<"m1">>, FALSE), c |-> Entry("plain", <<"m2", "m1">>, FALSE)]],
    \* hamiltonian
    [driver |-> "HamiltonianCanonical", ctx |-> "hdisp", tmplLen |-> 0, fixcom |-> FALSE,
     mobj |-> [m1 |-> Mobj("ham", NoLab, FALSE), m2 |-> Mobj("disp", NoLab, FALSE)],
     moves |-> [a |-> Entry("single", <<"m1">>, TRUE), b |-> Entry("single", <<"m2">>, FALSE)]],
    \* grand canonical, atomic species: exchange, displacement (default label -1), the same exchange move under a second name
    [driver |-> "GrandCanonical", ctx |-> "exch", tmplLen |-> 1, fixcom |-> FALSE,
     mobj |-> [m1 |-> Mobj("exch", NoLab, FALSE), m2 |-> Mobj("disp", -1, FALSE)],
     moves |-> [a |-> Entry("single", <<"m1">>, FALSE), b |-> Entry("single", <<"m2">>, FALSE), c |-> Entry("single", <<"m1">>, FALSE)]],
    \* grand canonical, two-atom species, default label 0 on the exchange move, composite displacement
    [driver |-> "GrandCanonical", ctx |-> "exch", tmplLen |-> 2, fixcom |-> FALSE,
     mobj |-> [m1 |-> Mobj("exch", 0, FALSE), m2 |-> Mobj("disp", NoLab, FALSE)],
     moves |-> [a |-> Entry("single", <<"m1">>, FALSE), b |-> Entry("cdisp", <<"m2", "m2">>, FALSE)]] }

(* ---- initial systems ----------------------------------------------------------- *)
AtomRec(i) == [sp |-> 29, pos |-> i, mom |-> 100 + i, rest |-> 200 + i]
InitAtoms(n) == [i \in 1..n |-> AtomRec(i)]
Labelings(n, k) ==      \* label arrays of length n; particles of size k share a label; negative and non-contiguous labels included
    IF k = 2 THEN {<<0, 0>>, <<3, 3>>} ELSE {<<0, 1>>, <<2, 0>>, <<-1, 1>>, <<1, 1>>}

Init ==
    /\ setup \in Setups
    /\ \E lab1 \in Labelings(2, IF setup.tmplLen = 2 THEN 2 ELSE 1), lab2 \in Labelings(2, IF setup.tmplLen = 2 THEN 2 ELSE 1), cons \in (IF setup.fixcom THEN {{}} ELSE {{}, {1}, {2}}) :
         LET a0 == InitAtoms(2)
             c0 == [p |-> [i \in 1..2 |-> a0[i].pos], c |-> 300]
         IN s = [atoms |-> a0, cell |-> 300, cons |-> cons,
                 lastPos |-> c0.p, lastCell |-> IF setup.ctx = "deform" THEN 300 ELSE 0,
                 lastMom |-> IF setup.ctx = "hdisp" THEN [i \in 1..2 |-> a0[i].mom] ELSE <<>>,
                 lastE |-> c0, lastK |-> <<>>, lastRes |-> c0, calcAtoms |-> c0, calcRes |-> c0, usable |-> TRUE, evals |-> 1,
                 added |-> <<>>, addsz |-> <<>>, deleted |-> <<>>, pdelta |-> 0,
                 nexch |-> IF setup.ctx = "exch" THEN Cardinality(UniqueLabels(lab1)) ELSE 0,
                 labels |-> [m \in {x \in DOMAIN setup.mobj : setup.mobj[x].kind \in {"disp", "exch"}} |-> IF m = "m1" THEN lab1 ELSE lab2],
                 presel |-> [m \in {x \in DOMAIN setup.mobj : setup.mobj[x].kind \in {"disp", "exch"}} |-> NoPre],
                 tmpl |-> 900]
    /\ pre = s /\ pc = "idle" /\ cur = "a" /\ subsv = <<>> /\ verdict = "none" /\ trials = 0 /\ fresh = 1000
    /\ accIns = 0 /\ accDel = 0 /\ nexch0 = s.nexch

(* ---- the observed-state stand-in: every token fresh ------------------------------ *)
Obs(n) == [atoms |-> [j \in 1..n |-> [sp |-> 29, pos |-> fresh + j, mom |-> fresh + 50 + j, rest |-> 777]],
           cell |-> fresh + 99, evals |-> s.evals + 3,
           calcAtoms |-> [p |-> [j \in 1..n |-> fresh + j], c |-> s.cell], calcRes |-> [p |-> [j \in 1..n |-> fresh + j], c |-> s.cell]]

(* ---- candidate outcomes of one element -------------------------------------------- *)
\* (size: number of atoms of the particle an insertion brings; 0 = not an insertion.  In the atomic grand-canonical set-ups
\*  a SINGLE exchange move may have been given a pre-selected particle of two atoms instead of the one-atom template)
SubChoices(m) ==
    LET k == setup.mobj[m].kind
        sizes == {setup.tmplLen} \cup (IF setup.tmplLen = 1 /\ setup.moves[cur].ctype = "single" THEN {2} ELSE {})
    IN CASE k = "disp" -> {[k |-> "disp", dir |-> "", lab |-> l, ok |-> TRUE, refreshed |-> <<>>, size |-> 0] : l \in UniqueLabels(s.labels[m])}
                          \cup {[k |-> "disp", dir |-> "", lab |-> NoLab, ok |-> FALSE, refreshed |-> <<>>, size |-> 0]}
         [] k = "exch" -> {[k |-> "exch", dir |-> "del", lab |-> l, ok |-> TRUE, refreshed |-> <<>>, size |-> 0] : l \in UniqueLabels(s.labels[m])}
                          \cup {[k |-> "exch", dir |-> "ins", lab |-> NoLab, ok |-> TRUE, refreshed |-> <<>>, size |-> z] : z \in {y \in sizes : Len(s.atoms) + y <= MaxAtoms}}
                          \cup {[k |-> "exch", dir |-> "ins", lab |-> NoLab, ok |-> FALSE, refreshed |-> <<>>, size |-> z] : z \in sizes}
         [] k = "cell" -> {[k |-> "cell", dir |-> "", lab |-> NoLab, ok |-> b, refreshed |-> <<>>, size |-> 0] : b \in BOOLEAN}
         [] OTHER      -> {[k |-> "ham", dir |-> "", lab |-> NoLab, ok |-> b, refreshed |-> [j \in 1..Len(s.atoms) |-> fresh + 80 + j], size |-> 0] : b \in BOOLEAN}

SubOutcomes(el) == IF Len(el) = 1 THEN {<<x>> : x \in SubChoices(el[1])}
               ELSE {<<x, y>> : x \in SubChoices(el[1]), y \in SubChoices(el[2])}

Yield(name) == /\ pc = "idle" /\ trials < MaxTrials /\ name \in DOMAIN setup.moves
               /\ cur' = name /\ pre' = s /\ pc' = "yielded"
               /\ UNCHANGED <<setup, s, subsv, verdict, trials, fresh, accIns, accDel, nexch0>>

Call == /\ pc = "yielded"
        /\ \E subs \in SubOutcomes(setup.moves[cur].elems) :
             LET entry == setup.moves[cur]
                 o == Obs(MaxAtoms + 2)
             IN /\ CallLegal(setup, s, entry, subs, o)
                /\ s' = AfterCall(setup, s, entry, subs, o)
                /\ subsv' = subs
                /\ pc' = IF AnyOk(subs) THEN "called_true" ELSE "called_false"
        /\ fresh' = fresh + 100
        /\ UNCHANGED <<setup, pre, cur, verdict, trials, accIns, accDel, nexch0>>

Eval(v) == /\ pc = "called_true"
           /\ s' = AfterEval(setup, s, setup.moves[cur])
           /\ verdict' = v /\ pc' = "evaluated"
           /\ UNCHANGED <<setup, pre, cur, subsv, trials, fresh, accIns, accDel, nexch0>>

NIns == Cardinality({i \in 1..Len(subsv) : subsv[i].k = "exch" /\ subsv[i].ok /\ subsv[i].dir = "ins"})
NDel == Cardinality({i \in 1..Len(subsv) : subsv[i].k = "exch" /\ subsv[i].ok /\ subsv[i].dir = "del"})

End == \/ /\ pc = "evaluated" /\ verdict = "acc"
          /\ s' = Accept(setup, s) /\ accIns' = accIns + NIns /\ accDel' = accDel + NDel
          /\ pc' = "ended" /\ trials' = trials + 1
          /\ UNCHANGED <<setup, pre, cur, subsv, verdict, fresh, nexch0>>
       \/ /\ pc = "evaluated" /\ verdict = "rej"
          /\ s' = Reject(setup, s, pre)
          /\ pc' = "ended" /\ trials' = trials + 1
          /\ UNCHANGED <<setup, pre, cur, subsv, verdict, fresh, accIns, accDel, nexch0>>
       \/ /\ pc = "called_false"
          /\ s' = NotAttempted(setup, s, pre) /\ verdict' = "none"
          /\ pc' = "ended" /\ trials' = trials + 1
          /\ UNCHANGED <<setup, pre, cur, subsv, fresh, accIns, accDel, nexch0>>

Idle == /\ pc = "ended" /\ pc' = "idle"
        /\ UNCHANGED <<setup, s, pre, cur, subsv, verdict, trials, fresh, accIns, accDel, nexch0>>

\* the run is stopped between two trials and continued from its restart dictionary with a fresh calculator
Restart == /\ pc = "idle" /\ s.lastRes # NoCfg /\ setup.ctx # "base"
           /\ s' = Restarted(s)
           /\ UNCHANGED <<setup, pre, pc, cur, subsv, verdict, trials, fresh, accIns, accDel, nexch0>>

\* between two run calls the user moves every atom by hand, declares the remembered energy void and the simulation
\* re-validates: everything remembered describes the edited configuration
UserEdit == /\ pc = "idle" /\ trials >= 1 /\ setup.ctx # "base" /\ fresh < 1500
            /\ LET n == Len(s.atoms)
                   atoms2 == [j \in 1..n |-> [s.atoms[j] EXCEPT !.pos = fresh + j]]
                   c == [p |-> [j \in 1..n |-> fresh + j], c |-> s.cell]
               IN s' = [s EXCEPT !.atoms = atoms2, !.lastPos = c.p, !.lastE = c, !.lastRes = c, !.calcAtoms = c, !.calcRes = c, !.evals = @ + 1]
            /\ pre' = s'          \* (the user, not a move, moved the atoms: constraints bind moves; the next trial starts from here)
            /\ fresh' = fresh + 100
            /\ UNCHANGED <<setup, pc, cur, subsv, verdict, trials, accIns, accDel, nexch0>>

Trial == (\E n \in DOMAIN setup.moves : Yield(n)) \/ Call \/ (\E v \in {"acc", "rej"} : Eval(v)) \/ End \/ Idle
Next == Restart \/ UserEdit \/ Trial
Spec == Init /\ [][Next]_vars

(* ---- properties ------------------------------------------------------------------------ *)
C03_RestoreOnRejectOrFail == (pc = "ended" /\ verdict # "acc") => (C03_Restored(s, pre) /\ C03_NoLeak(s, pre))
C03_NoPendingAtRest == pc \in {"ended", "idle"} => (s.added = <<>> /\ s.deleted = <<>> /\ s.pdelta = 0)
C04_OwnAtRest == pc \in {"ended", "idle"} => (C04_Own(s) /\ C04_NoRecompute(s))
C04_AtMostOneEval == (pc = "ended" /\ ~setup.moves[cur].hasHam) => (s.evals - pre.evals) \in (IF verdict = "none" THEN {0} ELSE {0, 1})
C05_AlignedAtRest == pc \in {"ended", "idle"} => C05_Aligned(s)
C05_Count == (pc \in {"ended", "idle"} /\ setup.ctx = "exch") => s.nexch = nexch0 + accIns - accDel
C05_TemplateUntouched == s.tmpl = 900
C05_InsertedParticlesShareOneLabel ==      \* atoms of one inserted particle share a label (template of two atoms)
    (pc \in {"ended", "idle"} /\ setup.tmplLen = 2) =>
        \A m \in DOMAIN s.labels : \A i \in 1..Len(s.atoms) : (i % 2 = 1 /\ i + 1 <= Len(s.labels[m])) => s.labels[m][i] = s.labels[m][i + 1]
\* C11: during a call of displacement-only entries, an atom whose position changed carries one of the chosen labels
C11_OnlyChosenMove ==
    (pc \in {"called_true", "called_false"} /\ ~setup.fixcom /\ \A i \in 1..Len(subsv) : subsv[i].k = "disp") =>
        \A j \in 1..Len(s.atoms) : s.atoms[j].pos # pre.atoms[j].pos =>
            \E i \in 1..Len(subsv) : subsv[i].ok /\ pre.labels[setup.moves[cur].elems[i]][j] = subsv[i].lab /\ subsv[i].lab >= 0
C11_NoRepeatInComposite ==
    (pc \in {"called_true", "called_false"} /\ setup.moves[cur].ctype = "cdisp" /\ Len(subsv) = 2 /\ subsv[1].ok /\ subsv[2].ok) => subsv[1].lab # subsv[2].lab
C12_FixedNeverMove ==
    (Len(s.atoms) = Len(pre.atoms) /\ s.cell = pre.cell /\ s.cons = pre.cons) => \A j \in pre.cons : j <= Len(s.atoms) => s.atoms[j].pos = pre.atoms[j].pos
=============================================================================
