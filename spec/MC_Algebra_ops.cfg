CONSTANTS
  MaxSize = 4
  MaxMul = 3
  Domain = "operations"
  Pinned17 = FALSE
SPECIFICATION Spec
INVARIANT C17_Faithful
INVARIANT C17_Multiplicity
INVARIANT C17_CallOrder
INVARIANT C17_NoShortCircuit
POSTCONDITION Export
