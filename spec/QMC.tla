------------------------------ MODULE QMC ------------------------------
(* The Monte Carlo engine of quansino: one trial = Yield -> Call (the move)
   -> Eval (the criteria) -> End (save_state / revert_state / nothing).

   mc/core.py: MonteCarlo.step            the loop
   mc/contexts.py: *Context.save_state / revert_state / reset
   mc/canonical.py, isobaric.py, gcmc.py:  driver-level save/revert
   moves/displacement.py, exchange.py, cell.py, composite.py: the moves

   Everything continuous is a *token* (a natural number standing for the
   raw bytes of one array row, one cell, ...), so "bit-for-bit restored" is
   token equality.  A configuration is the pair <position tokens, cell
   token>; an energy is identified with the configuration it is the energy
   of, so "this energy belongs to that configuration" is an equality too.

   The module is written in *functional* style: every action is an
   operator that maps the state before and the action's arguments (which
   move, which label, which direction, whether the geometric check vetoed,
   the verdict, and the fresh tokens) to the state after.  The exhaustive
   model (MC_QMC) quantifies existentially over the arguments; the trace
   specification (QMC_Trace) takes them from the recorded event.  Both use
   the same operators.

   The state record  s  has exactly the fields the harness can observe
   through the public API (harness/project.py), so a recorded state *is* a
   spec state:

     atoms   : Seq([sp, pos, mom, rest])   one record per atom, index order
     cell    : token
     cons    : set of atom indices fixed by FixAtoms
     lastPos : Seq(token)                  context.last_positions
     lastCell: token                       context.last_cell   (0: no such attribute)
     lastMom : Seq(token)                  context.last_momenta (<<>>: none)
     lastE   : configuration               whose energy context.last_potential_energy is
     lastK   : momentum tuple              whose kinetic energy context.last_kinetic_energy is
     lastRes : configuration               context.last_results describes
     calcAtoms, calcRes : configuration    calc.atoms / the one calc.results describes
     usable  : BOOLEAN                     the calculator can evaluate a neighbouring configuration
     evals   : number of calculate() calls so far
     added, deleted : Seq(index)           pending exchange bookkeeping
     addsz : Seq(Nat)                      sizes of the particles inserted by the trial in progress (a pre-selected
                                           particle need not have the template's size); not observable in the
                                           context, supplied by the recorder from the insertions it saw
     pdelta  : Int                         context.particle_delta
     nexch   : Int                         context.number_of_exchange_particles
     labels  : [move id -> Seq(Int)]       one entry per *distinct* label-bearing move object
     presel  : [move id -> <<to_displace, to_delete, to_add>>]   one-shot pre-selections (NoLab = unset)
     tmpl    : token                       digest of the user's exchange template
*)
EXTENDS Integers, Sequences, FiniteSets, SequencesExt, TLC

NoLab == -99
NoCfg == [p |-> <<>>, c |-> 0]          \* "no energy / no results / no atoms"
UnknownCfg == [p |-> <<>>, c |-> -1]    \* an energy that belongs to no configuration the harness knows

PosOf(s) == [i \in 1..Len(s.atoms) |-> s.atoms[i].pos]
MomOf(s) == [i \in 1..Len(s.atoms) |-> s.atoms[i].mom]
Cfg(s)   == [p |-> PosOf(s), c |-> s.cell]

SeqMax(q) == IF Len(q) = 0 THEN -1 ELSE CHOOSE x \in ToSet(q) : \A y \in ToSet(q) : y <= x
QRange(q) == {q[i] : i \in 1..Len(q)}
UniqueLabels(lab) == {x \in QRange(lab) : x >= 0}
IdxOf(lab, x) == {i \in 1..Len(lab) : lab[i] = x}

(* remove the atoms at the index set D (1-based) from a sequence *)
RemoveIdx(q, D) == SelectSeq([i \in 1..Len(q) |-> <<i, q[i]>>], LAMBDA e : e[1] \notin D)
Strip(q) == [i \in 1..Len(q) |-> q[i][2]]
Without(q, D) == Strip(RemoveIdx(q, D))
(* ASE re-indexes FixAtoms when atoms are deleted: constraint follows the atom *)
ShiftCons(cons, D) == {i - Cardinality({d \in D : d < i}) : i \in cons \ D}

(* -------------------------------------------------------------------
   The move call.  A table entry is [ctype, elems]: ctype in
     "single" (an elementary move), "plain" (CompositeMove),
     "cdisp"  (CompositeDisplacementMove), "cexch" (CompositeExchangeMove)
   and elems the sequence of elementary move ids.  mobj[m] describes an
   elementary move: kind in {"disp","exch","cell","ham","user"}.

   subs[k] is what element k did:
     disp: [lab, ok]        ok = FALSE: no eligible label or every attempt vetoed
     exch: [dir, lab, ok]   dir in {"ins","del"}
     cell: [ok]             ham: [ok, refreshed (momentum tokens after the refresh)]
     user: [ok]
   The fold keeps a running state in which every atom record carries a
   transient flag mv ("some element was entitled to move this atom").
   ------------------------------------------------------------------- *)
\* (fresh: the atom was appended by an insertion of this trial; its tokens are read from the observed state at the
\*  index the atom has AFTER the whole call -- a deletion later in the same trial shifts it)
Mark(atoms) == [i \in 1..Len(atoms) |-> [a |-> atoms[i], mv |-> FALSE, fresh |-> FALSE]]
Placeholder == [sp |-> 0, pos |-> 0, mom |-> 0, rest |-> 0]

RECURSIVE NewLabels(_, _, _, _)
(* labels for n particles of size k appended after `lab`: the configured
   default label if there is one, else consecutive fresh non-negative labels *)
NewLabels(lab, n, k, def) ==
    IF n = 0 THEN lab
    ELSE LET x == IF def # NoLab THEN def ELSE SeqMax(SelectSeq(lab, LAMBDA y : y >= 0)) + 1
         IN NewLabels(lab \o [i \in 1..k |-> x], n - 1, k, def)

(* one elementary displacement on the running state r = [m: marked atoms, ...] *)
DispSub(setup, s, r, m, sub, o) ==
    LET lab == s.labels[m]
        idx == IdxOf(lab, sub.lab)
        \* map pre-trial indices to running indices: atoms deleted earlier in this call are gone
        live == {i \in idx : i \notin r.gone}
        run(i) == i - Cardinality({d \in r.gone : d < i})
    IN IF ~sub.ok THEN r
       ELSE [r EXCEPT !.m = [j \in 1..Len(r.m) |->
                  IF \E i \in live : run(i) = j THEN [r.m[j] EXCEPT !.mv = TRUE] ELSE r.m[j]],
                      !.displaced = @ \cup {sub.lab}]

(* legality of the label an elementary displacement picked *)
DispLegal(s, r, m, sub, ctype) ==
    LET lab == s.labels[m]
        pre == s.presel[m][1]
    IN IF sub.ok
       THEN /\ sub.lab >= 0
            /\ sub.lab \in QRange(lab)
            /\ IdxOf(lab, sub.lab) \ r.gone # {}       \* something of the label is left (not deleted earlier in this trial)
            /\ (ctype = "cdisp" => sub.lab \notin r.displaced)
            /\ (ctype = "single" /\ pre # NoLab => sub.lab = pre)
       ELSE TRUE

InsSub(setup, s, r, m, sub, o) ==
    IF ~sub.ok THEN r
    ELSE LET k == IF sub.size > 0 THEN sub.size ELSE setup.tmplLen      \* a pre-selected particle brings its own size
             n0 == Len(r.m)
             new == [j \in 1..k |-> [a |-> Placeholder, mv |-> TRUE, fresh |-> TRUE]]
         IN [r EXCEPT !.m = @ \o new,
                      !.added = @ \o [j \in 1..k |-> n0 + j - 1],      \* 0-based, as the context stores them
                      !.addsz = Append(@, k),
                      !.pdelta = @ + 1,
                      !.nins = @ + 1]

DelSub(setup, s, r, m, sub, o) ==
    IF ~sub.ok THEN r
    ELSE LET lab == s.labels[m]
             idx == IdxOf(lab, sub.lab)                 \* pre-trial indexing (labels are only updated on acceptance)
             live == idx \ r.gone
             runidx == {i - Cardinality({d \in r.gone : d < i}) : i \in live}     \* indices in the running sequence
         IN [r EXCEPT !.m = Without(@, runidx),
                      !.deleted = @ \o SetToSortSeq({i - 1 : i \in live}, <),
                      !.gone = @ \cup live,
                      !.cons = ShiftCons(@, runidx),
                      !.pdelta = @ - 1,
                      !.dellabs = @ \cup {sub.lab}]

ExchLegal(s, r, m, sub, ctype) ==
    IF sub.ok /\ sub.dir = "del"
    THEN /\ sub.lab >= 0 /\ sub.lab \in QRange(s.labels[m])
         /\ (ctype = "cexch" => sub.lab \notin r.dellabs)
         /\ (ctype = "single" /\ s.presel[m][2] # NoLab => sub.lab = s.presel[m][2])
    ELSE TRUE

CellSub(setup, s, r, m, sub, o) ==
    IF ~sub.ok THEN r
    ELSE [r EXCEPT !.cell = o.cell,
                   !.m = IF setup.mobj[m].scale THEN [j \in 1..Len(@) |-> [@[j] EXCEPT !.mv = TRUE]] ELSE @]

HamSub(setup, s, r, m, sub, o) ==
    \* deliberate deviation (harmless, named): a vetoed Hamiltonian trial leaves the kinetic
    \* energy of its last momentum refresh in the context; it is overwritten before it is read
    IF ~sub.ok THEN [r EXCEPT !.hamfail = TRUE, !.lastK = sub.refreshed]
    ELSE [r EXCEPT !.m = [j \in 1..Len(@) |-> [@[j] EXCEPT !.mv = TRUE]],
                   !.ham = TRUE, !.lastK = sub.refreshed]

UserSub(setup, s, r, m, sub, o) ==
    IF ~sub.ok THEN r ELSE [r EXCEPT !.free = TRUE]

Sub(setup, s, r, m, sub, o) ==
    LET k == setup.mobj[m].kind
    IN CASE k = "disp" -> DispSub(setup, s, r, m, sub, o)
         [] k = "exch" -> IF sub.dir = "ins" THEN InsSub(setup, s, r, m, sub, o) ELSE DelSub(setup, s, r, m, sub, o)
         [] k = "cell" -> CellSub(setup, s, r, m, sub, o)
         [] k = "ham"  -> HamSub(setup, s, r, m, sub, o)
         [] OTHER      -> UserSub(setup, s, r, m, sub, o)

SubLegal(setup, s, r, m, sub, ctype) ==
    LET k == setup.mobj[m].kind
    IN CASE k = "disp" -> DispLegal(s, r, m, sub, ctype)
         [] k = "exch" -> ExchLegal(s, r, m, sub, ctype)
         [] OTHER      -> TRUE

Run0(s) == [m |-> Mark(s.atoms), cell |-> s.cell, cons |-> s.cons, gone |-> {}, displaced |-> {},
            dellabs |-> {}, added |-> s.added, addsz |-> s.addsz, deleted |-> s.deleted, pdelta |-> s.pdelta, nins |-> 0,
            ham |-> FALSE, hamfail |-> FALSE, lastK |-> s.lastK, free |-> FALSE, legal |-> TRUE]

RECURSIVE Fold(_, _, _, _, _, _, _)
Fold(setup, s, r, elems, subs, o, ctype) ==
    IF Len(elems) = 0 THEN r
    ELSE LET m == Head(elems)
             sub == Head(subs)
             r1 == [r EXCEPT !.legal = @ /\ SubLegal(setup, s, r, m, sub, ctype)]
         IN Fold(setup, s, Sub(setup, s, r1, m, sub, o), Tail(elems), Tail(subs), o, ctype)

AnyOk(subs) == \E i \in 1..Len(subs) : subs[i].ok

(* the composite exchange draws ONE direction for all its elements *)
OneDirection(setup, entry, subs) ==
    entry.ctype = "cexch" =>
        \A i, j \in 1..Len(subs) : (subs[i].ok /\ subs[j].ok) => subs[i].dir = subs[j].dir

(* state after the move returned; o is the observed state (source of fresh tokens) *)
AfterCall(setup, s, entry, subs, o) ==
    LET r == Fold(setup, s, Run0(s), entry.elems, subs, o, entry.ctype)
        n == Len(r.m)
        \* the observed atom j (source of fresh tokens); a run whose atom count differs from the specified one is judged
        \* on the specified atoms (total: the divergence is reported by the field comparison, not by an evaluation error)
        OA(j) == IF j <= Len(o.atoms) THEN o.atoms[j] ELSE r.m[j].a
        atoms == [j \in 1..n |->
                    IF r.free THEN OA(j)
                    ELSE IF r.m[j].fresh THEN (OA(j))
                    ELSE IF r.m[j].mv \/ (setup.fixcom /\ \E i \in 1..n : r.m[i].mv)
                    THEN IF r.ham
                         THEN [r.m[j].a EXCEPT !.pos = IF j \in r.cons THEN @ ELSE OA(j).pos,
                                               !.mom = OA(j).mom]
                         ELSE IF j \in r.cons /\ r.cell = s.cell THEN r.m[j].a     \* FixAtoms: never moves
                         ELSE [r.m[j].a EXCEPT !.pos = OA(j).pos]
                    ELSE r.m[j].a]
        clear == [m \in DOMAIN s.presel |-> <<NoLab, NoLab, NoLab>>]
    IN [s EXCEPT !.atoms = atoms, !.cell = r.cell, !.cons = r.cons,
                 !.added = r.added, !.addsz = r.addsz, !.deleted = r.deleted, !.pdelta = r.pdelta,
                 !.lastK = r.lastK,
                 \* a Hamiltonian element evaluates forces (integration); a vetoed one resets the cache
                 !.evals = IF r.ham \/ r.hamfail THEN o.evals ELSE @,
                 \* after a successful integration the calculator holds the final configuration; after a vetoed one it
                 \* is resynchronised with the restored configuration and the saved results
                 !.calcAtoms = IF r.ham THEN [p |-> [j \in 1..n |-> atoms[j].pos], c |-> r.cell]
                               ELSE IF r.hamfail THEN Cfg(s) ELSE @,
                 !.calcRes = IF r.ham THEN [p |-> [j \in 1..n |-> atoms[j].pos], c |-> r.cell]
                             ELSE IF r.hamfail THEN s.lastRes ELSE @,
                 !.presel = [m \in DOMAIN s.presel |->
                               IF m \in QRange(entry.elems) THEN clear[m] ELSE s.presel[m]]]

CallLegal(setup, s, entry, subs, o) ==
    /\ Fold(setup, s, Run0(s), entry.elems, subs, o, entry.ctype).legal
    /\ OneDirection(setup, entry, subs)

(* the atoms an element was entitled to move really all moved (C11: "all of them") *)
Entitled(setup, s, entry, subs, o) ==
    LET r == Fold(setup, s, Run0(s), entry.elems, subs, o, entry.ctype)
    IN {j \in 1..Len(r.m) : r.m[j].mv /\ j \notin r.cons}

(* -------------------------------------------------------------------
   Evaluate: exactly one calculation, of the trial configuration.
   ------------------------------------------------------------------- *)
(* an ASE calculator serves a configuration it has cached without calculating
   (a trial that moved nothing, e.g. a displacement of a fixed atom) *)
Cached(s) == s.calcAtoms = Cfg(s) /\ s.calcRes = Cfg(s)

AfterEval(setup, s, entry) ==
    IF entry.hasHam \/ Cached(s)
    THEN s      \* the integrator already evaluated the final configuration / cache hit
    ELSE [s EXCEPT !.evals = @ + 1, !.calcAtoms = Cfg(s), !.calcRes = Cfg(s)]

(* -------------------------------------------------------------------
   End of trial.
   ------------------------------------------------------------------- *)
NoPending(s) == [s EXCEPT !.added = <<>>, !.addsz = <<>>, !.deleted = <<>>, !.pdelta = 0]

(* labels after an accepted trial: every distinct label-bearing move of the
   table learns about the added and removed atoms exactly once *)
RECURSIVE GrowBy(_, _, _)
\* one label per inserted particle, whatever its size
GrowBy(lab, sizes, def) == IF Len(sizes) = 0 THEN lab ELSE GrowBy(NewLabels(lab, 1, Head(sizes), def), Tail(sizes), def)

LabelsAfter(setup, s) ==
    [m \in DOMAIN s.labels |->
        LET grown == GrowBy(s.labels[m], s.addsz, setup.mobj[m].defLabel)
        IN Without(grown, {i + 1 : i \in QRange(s.deleted)})]

Accept(setup, s) ==
    LET ctx == setup.ctx
        s1 == [s EXCEPT !.lastPos = PosOf(s), !.lastE = Cfg(s), !.lastRes = Cfg(s),
                        !.lastCell = IF ctx = "deform" THEN s.cell ELSE @,
                        !.lastMom = IF ctx = "hdisp" THEN MomOf(s) ELSE @,
                        !.lastK = IF ctx = "hdisp" THEN MomOf(s) ELSE @,
                        !.nexch = IF ctx = "exch" THEN @ + s.pdelta ELSE @,
                        !.labels = IF ctx = "exch" THEN LabelsAfter(setup, s) ELSE @]
    IN IF ctx = "exch" THEN NoPending(s1) ELSE s1

(* revert: the system is what it was when the trial started (pre) *)
Reject(setup, s, pre) ==
    LET ctx == setup.ctx
        \* the calculator is told the restored configuration and given back the REMEMBERED results (which are those
        \* of pre, or none at all when the simulation was rebuilt from a restart dictionary with a fresh calculator)
        s1 == [s EXCEPT !.atoms = pre.atoms, !.cell = pre.cell, !.cons = pre.cons,
                        !.calcAtoms = Cfg(pre), !.calcRes = s.lastRes]
    IN IF ctx = "exch" THEN NoPending(s1) ELSE s1

(* a falsy move: the trial is recorded as not attempted, nothing changes *)
NotAttempted(setup, s, pre) == s

(* -------------------------------------------------------------------
   Properties, as predicates on observable states.
   pre = state at the yield, s = state at the end of the trial.
   ------------------------------------------------------------------- *)
C03_Restored(s, pre) ==
    /\ s.atoms = pre.atoms /\ s.cell = pre.cell /\ s.cons = pre.cons

C03_NoLeak(s, pre) ==
    /\ s.added = <<>> /\ s.deleted = <<>> /\ s.pdelta = 0
    /\ \A m \in DOMAIN s.presel : s.presel[m] = <<NoLab, NoLab, NoLab>>
    /\ s.labels = pre.labels
    /\ s.nexch = pre.nexch

C04_Own(s) ==
    /\ s.lastE = Cfg(s)
    /\ s.lastPos = PosOf(s)
    /\ (s.lastCell # 0 => s.lastCell = s.cell)
    /\ (s.calcRes # NoCfg => s.calcRes = s.calcAtoms)     \* cache never mis-attributed
    /\ (s.calcAtoms = Cfg(s) => s.calcRes \in {NoCfg, Cfg(s)})
    /\ s.usable

(* reporting the current energy costs no recomputation: the cache describes the current atoms *)
\* (a simulation rebuilt from its restart dictionary with a fresh calculator has no results to give back until its
\*  first acceptance: lastRes = NoCfg; nothing was computed, so nothing is RE-computed)
C04_NoRecompute(s) == s.lastRes = NoCfg \/ (s.calcAtoms = Cfg(s) /\ s.calcRes = Cfg(s))

(* Restart: to_dict -> from_dict -> fresh calculator.  Everything the simulation remembers survives; the calculator
   knows nothing. *)
Restarted(s) == [s EXCEPT !.lastRes = NoCfg, !.calcAtoms = NoCfg, !.calcRes = NoCfg]

C05_Aligned(s) == \A m \in DOMAIN s.labels : Len(s.labels[m]) = Len(s.atoms)

C05_Template(s, pre) == s.tmpl = pre.tmpl
=============================================================================
