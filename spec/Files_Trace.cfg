SPECIFICATION Spec
INVARIANT Judge
