--------------------------- MODULE Determinism ---------------------------
(* C06 -- same seed, same trajectory.

   Two simulations A and B and the process-wide ("global") generators.
   Every stochastic decision of a simulation (scheduling, move, operation,
   criteria) consumes the next value of ITS OWN stream, which is a function of
   its seed only; the environment may re-seed / advance the global generators
   at any time (PerturbGlobal) and no simulation step reads them; each
   simulation also lives in an interpreter with its own string-hash salt
   (PYTHONHASHSEED), which no step reads either (the order of the move table
   is its insertion order, never a set's).  The simulation state is the
   history of what it consumed.

   Invariants: same seed => same state at the same step count, whatever the
   environment did; different seeds => different states once a draw has
   happened; seed 0 is an ordinary seed.                                   *)
EXTENDS Integers, Sequences, FiniteSets, TLC

Seeds == {0, 1, 2}
MaxSteps == 3
MaxGlobal == 2

Stream(seed, i) == <<seed, i>>          \* the i-th value of the stream of `seed` (injective in both)

VARIABLES seedA, seedB, usedA, usedB, idxA, idxB, stateA, stateB, glob, globReads, saltA, saltB

vars == <<seedA, seedB, usedA, usedB, idxA, idxB, stateA, stateB, glob, globReads, saltA, saltB>>

\* the generator is built from the seed the user gave (any non-negative integer, 0 included)
Init == /\ seedA \in Seeds /\ seedB \in Seeds
        /\ usedA = seedA /\ usedB = seedB
        /\ idxA = 0 /\ idxB = 0 /\ stateA = <<>> /\ stateB = <<>>
        /\ glob = 0 /\ globReads = 0
        /\ saltA \in {0, 1} /\ saltB \in {0, 1}

StepA == /\ idxA < MaxSteps
         /\ stateA' = Append(stateA, Stream(usedA, idxA)) /\ idxA' = idxA + 1
         /\ UNCHANGED <<seedA, seedB, usedA, usedB, idxB, stateB, glob, globReads, saltA, saltB>>
StepB == /\ idxB < MaxSteps
         /\ stateB' = Append(stateB, Stream(usedB, idxB)) /\ idxB' = idxB + 1
         /\ UNCHANGED <<seedA, seedB, usedA, usedB, idxA, stateA, glob, globReads, saltA, saltB>>
PerturbGlobal == /\ glob < MaxGlobal /\ glob' = glob + 1
                 /\ UNCHANGED <<seedA, seedB, usedA, usedB, idxA, idxB, stateA, stateB, globReads, saltA, saltB>>

Next == StepA \/ StepB \/ PerturbGlobal
Spec == Init /\ [][Next]_vars

C06_SameSeedSameState == (seedA = seedB /\ idxA = idxB) => stateA = stateB
C06_DifferentSeedsDiffer == (seedA # seedB /\ idxA = idxB /\ idxA > 0) => stateA # stateB
C06_SeedHonoured == usedA = seedA /\ usedB = seedB
C06_OwnStreamOnly == globReads = 0
=============================================================================
