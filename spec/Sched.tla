------------------------------ MODULE Sched ------------------------------
(* C09 -- move scheduling (MonteCarlo.add_move / yield_moves, mc/core.py).

   A move table is built by AddMove (refused when the forced moves would
   over-commit the cycles); a step then emits names one slot at a time:
   forced slots (minimum counts of the due moves, placed without replacement)
   and free slots (any due move of positive weight).

   The scheduling contract for one step is the predicate Allowed(table,
   cycles, step, q) on the emitted sequence q; the state machine below is the
   slot-by-slot process, and TLC checks that every sequence the process can
   emit satisfies the contract and (Complete) that the process can emit every
   sequence of the contract.                                                *)
EXTENDS Integers, Sequences, FiniteSets, TLC, Json, IOUtils, SequencesExt

OutFile == IF "SCHED_OUT" \in DOMAIN IOEnv THEN IOEnv.SCHED_OUT ELSE ""
Big == IF "SCHED_BIG" \in DOMAIN IOEnv THEN IOEnv.SCHED_BIG = "1" ELSE FALSE

Names == <<"a", "b", "c">>
Intervals == {1, 2, 3}
Weights == {0, 1, 3}
Mins == {0, 1, 2}
CycleVals == IF Big THEN 1..4 ELSE 1..3
StepVals == IF Big THEN {0, 1, 2, 3, 4, 6} ELSE {0, 1, 2, 3}

Entry == [interval : Intervals, weight : Weights, min : Mins]

QRange(q) == {q[i] : i \in 1..Len(q)}
Count(q, x) == Cardinality({i \in 1..Len(q) : q[i] = x})

RECURSIVE SumSeq(_)
SumSeq(q) == IF Len(q) = 0 THEN 0 ELSE Head(q) + SumSeq(Tail(q))

RECURSIVE SumMin(_)
SumMin(t) == IF Len(t) = 0 THEN 0 ELSE Head(t).e.min + SumMin(Tail(t))

Due(t, step) == {i \in 1..Len(t) : step % t[i].e.interval = 0}
DueNames(t, step) == {t[i].name : i \in Due(t, step)}
EntryOf(t, nm) == (CHOOSE i \in 1..Len(t) : t[i].name = nm)

(* the contract for one step *)
Allowed(t, cycles, step, q) ==
    IF Due(t, step) = {} THEN q = <<>>
    ELSE /\ Len(q) = cycles
         /\ QRange(q) \subseteq DueNames(t, step)
         /\ \A i \in Due(t, step) :
               /\ Count(q, t[i].name) >= t[i].e.min
               /\ (t[i].e.weight = 0 => Count(q, t[i].name) = t[i].e.min)

(* a step can only be scheduled if the due moves of positive weight can fill the free slots *)
Schedulable(t, cycles, step) ==
    LET d == Due(t, step)
        forced == SumSeq([k \in 1..Len(t) |-> IF k \in d THEN t[k].e.min ELSE 0])
    IN d = {} \/ forced = cycles \/ \E i \in d : t[i].e.weight > 0

(* ---- state machine ------------------------------------------------------ *)
VARIABLES phase, table, cycles, refused, step, emitted, forcedLeft

vars == <<phase, table, cycles, refused, step, emitted, forcedLeft>>

Init == /\ phase = "build" /\ table = <<>> /\ cycles \in CycleVals /\ refused = 0
        /\ step = 0 /\ emitted = <<>> /\ forcedLeft = <<>>

\* add_move(name, interval, probability, minimum_count): refused iff the forced moves would exceed the cycles
AddMove(e) ==
    /\ phase = "build" /\ Len(table) < (IF Big THEN 3 ELSE 2)
    /\ IF SumMin(table) + e.min > cycles
       THEN /\ refused' = refused + 1 /\ UNCHANGED table
       ELSE /\ table' = Append(table, [name |-> Names[Len(table) + 1], e |-> e]) /\ UNCHANGED refused
    /\ refused < 1
    /\ UNCHANGED <<phase, cycles, step, emitted, forcedLeft>>

StartStep(s) ==
    /\ phase = "build" /\ Len(table) >= 1
    /\ Schedulable(table, cycles, s)
    /\ step' = s /\ phase' = "step" /\ emitted' = <<>>
    /\ forcedLeft' = [i \in 1..Len(table) |-> IF i \in Due(table, s) THEN table[i].e.min ELSE 0]
    /\ UNCHANGED <<table, cycles, refused>>

Remaining == cycles - Len(emitted)
\* a forced slot: one of the due moves that still owes a forced attempt
EmitForced(i) ==
    /\ phase = "step" /\ Due(table, step) # {} /\ Remaining > 0
    /\ forcedLeft[i] > 0
    /\ emitted' = Append(emitted, table[i].name)
    /\ forcedLeft' = [forcedLeft EXCEPT ![i] = @ - 1]
    /\ UNCHANGED <<phase, table, cycles, refused, step>>

\* a free slot: possible only while free slots remain; any due move of positive weight
EmitFree(i) ==
    /\ phase = "step" /\ Remaining > SumSeq(forcedLeft)
    /\ i \in Due(table, step) /\ table[i].e.weight > 0
    /\ emitted' = Append(emitted, table[i].name)
    /\ UNCHANGED <<phase, table, cycles, refused, step, forcedLeft>>

EndStep ==
    /\ phase = "step" /\ (Remaining = 0 \/ Due(table, step) = {})
    /\ phase' = "done"
    /\ UNCHANGED <<table, cycles, refused, step, emitted, forcedLeft>>

Next == \/ \E e \in Entry : AddMove(e)
        \/ \E s \in StepVals : StartStep(s)
        \/ \E i \in 1..Len(table) : EmitForced(i) \/ EmitFree(i)
        \/ EndStep

Spec == Init /\ [][Next]_vars

(* ---- properties ----------------------------------------------------------- *)
C09_Contract == phase = "done" => Allowed(table, cycles, step, emitted)
C09_NeverOvercommitted == SumMin(table) <= cycles
C09_PrefixFeasible ==            \* while emitting, the forced moves still fit
    phase = "step" => SumSeq(forcedLeft) <= Remaining \/ Due(table, step) = {}
C09_WeightZeroNeverFree ==
    phase \in {"step", "done"} => \A i \in 1..Len(table) :
        table[i].e.weight = 0 => Count(emitted, table[i].name) + forcedLeft[i] <= table[i].e.min

(* ---- the counter abstraction SchedInd.tla (inductive invariant discharged by Apalache for unbounded cycles and
        minimum counts) is an abstraction of THIS process: every state of a step maps to a state satisfying its
        inductive invariant, and every slot of this process is a step of the abstraction ------------------------ *)
InTable(nm) == \E i \in 1..Len(table) : table[i].name = nm
Idx(nm) == CHOOSE i \in 1..Len(table) : table[i].name = nm
SI == INSTANCE SchedInd WITH
        cycles <- cycles,
        min   <- [nm \in {"a", "b", "c"} |-> IF InTable(nm) THEN table[Idx(nm)].e.min ELSE 0],
        due   <- [nm \in {"a", "b", "c"} |-> InTable(nm) /\ Idx(nm) \in Due(table, step)],
        pos   <- [nm \in {"a", "b", "c"} |-> InTable(nm) /\ table[Idx(nm)].e.weight > 0],
        left  <- [nm \in {"a", "b", "c"} |-> IF InTable(nm) /\ phase # "build" THEN forcedLeft[Idx(nm)] ELSE 0],
        cnt   <- [nm \in {"a", "b", "c"} |-> Count(emitted, nm)],
        phase <- phase
C09_AbstractionInv == phase \in {"step", "done"} => SI!IndInv
C09_AbstractionStep == [][phase = "step" => SI!Next]_vars

(* ---- export of small tables with their complete allowed sets ---------------- *)
SmallEntries == [interval : {1, 2, 3}, weight : {0, 1, 3}, min : {0, 1}]     \* (2 and 3: intervals that are not multiples of each other)
SmallTables == {<<[name |-> "a", e |-> x]>> : x \in SmallEntries}
               \cup {<<[name |-> "a", e |-> x], [name |-> "b", e |-> y]>> : x \in SmallEntries, y \in SmallEntries}
SeqsOver(S, k) == IF S = {} THEN {<<>>} ELSE [1..k -> S]
AllowedSet(t, c, s) == {q \in (SeqsOver(DueNames(t, s), c) \cup {<<>>}) : Allowed(t, c, s, q)}
SmallCases == {[table |-> t, cycles |-> c, step |-> s, allowed |-> AllowedSet(t, c, s)]
               : <<t, c, s>> \in {<<t2, c2, s2>> \in SmallTables \X {1, 2, 3} \X {0, 1, 2, 3} :
                                     SumMin(t2) <= c2 /\ Schedulable(t2, c2, s2)}}
Export ==
    IF TLCGet("stats").distinct < 0 \/ OutFile = "" THEN TRUE
    ELSE ndJsonSerialize(OutFile, SetToSeq(SmallCases))
=============================================================================
