SPECIFICATION Spec
INVARIANT C02_FavourableAlwaysAccepted
INVARIANT C02_UsesFreshParams
INVARIANT C02_HydrostaticIsIsobaric
INVARIANT C02_MonotoneInEnergy
INVARIANT C02_NeverAboveOneMatters
POSTCONDITION Export
