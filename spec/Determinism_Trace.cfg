SPECIFICATION Spec
POSTCONDITION Consumed
