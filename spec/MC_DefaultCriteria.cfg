SPECIFICATION Spec
INVARIANT DC_Unambiguous
INVARIANT DC_FirstMatchIsMostSpecific
INVARIANT DC_NoShadowedEntry
INVARIANT Emit
