SPECIFICATION Spec
