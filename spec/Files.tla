------------------------------ MODULE Files ------------------------------
(* C16 -- output files after every observer call and after a crash at any
   point (io/logger.py, io/trajectory.py, io/restart.py, io/core.py).

   A file is [disk, buf, pos, mode]: what has reached the disk, what has been
   written but not flushed, the write position, and the open mode ("a": every
   flush appends; "w": a flush writes at pos, overwriting).  Content is a
   sequence of *units* (pieces of a header, a log row, an xyz frame, a json
   document), so a record can be torn.  CPython flushes its buffer whenever it
   fills, therefore after a crash the file holds the disk content plus an
   ARBITRARY PREFIX of the buffer.

   Observer calls are sequences of primitive operations, exactly as in
   Logger.__call__ (write row; flush), Driver.irun (write header),
   TrajectoryObserver.__call__ (write_xyz = several writes; flush) and
   RestartObserver.__call__ (seek 0; truncate; write json; flush).         *)
EXTENDS Integers, Sequences, FiniteSets, TLC, SequencesExt

(* ---- file semantics ------------------------------------------------------- *)
Apply(disk, pos, buf, mode) ==
    IF mode = "a" THEN disk \o buf
    ELSE SubSeq(disk, 1, pos) \o buf \o SubSeq(disk, pos + Len(buf) + 1, Len(disk))

FWrite(f, units) == [f EXCEPT !.buf = @ \o units]
FFlush(f) == LET d == Apply(f.disk, f.pos, f.buf, f.mode)
             IN [f EXCEPT !.disk = d, !.buf = <<>>,
                          !.pos = IF Len(f.buf) = 0 THEN f.pos        \* nothing pending: the position stays
                                  ELSE IF f.mode = "a" THEN Len(d) ELSE f.pos + Len(f.buf)]
FSeek0(f) == [FFlush(f) EXCEPT !.pos = 0]
FTruncate(f) == LET g == FFlush(f) IN [g EXCEPT !.disk = SubSeq(g.disk, 1, g.pos)]

BufPrefixes(q) == {SubSeq(q, 1, k) : k \in 0..Len(q)}
\* every content the file can have if the process dies now
Survivors(f) == {Apply(f.disk, f.pos, p, f.mode) : p \in BufPrefixes(f.buf)}

NewFile(mode) == [disk |-> <<>>, buf |-> <<>>, pos |-> 0, mode |-> mode]

(* ---- records ---------------------------------------------------------------- *)
CONSTANTS Mode,          \* "a" or "w"
          NCalls         \* observer calls per file

Header == << <<"h", 0, 1>> >>
Row(k) == << <<"r", k, 1>>, <<"r", k, 2>> >>
Frame(k) == << <<"f", k, 1>>, <<"f", k, 2>>, <<"f", k, 3>> >>
\* the serialized state grows and shrinks (grand canonical): sizes 2, 3, 1, 3, ...
JsonSize(k) == CASE k % 3 = 0 -> 2 [] k % 3 = 1 -> 3 [] OTHER -> 1
Json(k) == [i \in 1..JsonSize(k) |-> <<"j", k, i>>]

RECURSIVE Rows(_)
Rows(n) == IF n = 0 THEN <<>> ELSE Rows(n - 1) \o Row(n - 1)
RECURSIVE Frames(_)
Frames(n) == IF n = 0 THEN <<>> ELSE Frames(n - 1) \o Frame(n - 1)

(* ---- the process --------------------------------------------------------------- *)
VARIABLES log, traj, rst, k, pc, crashed

vars == <<log, traj, rst, k, pc, crashed>>

\* pc: which primitive operation comes next within call k
Init == /\ log = NewFile(Mode) /\ traj = NewFile(Mode) /\ rst = NewFile(Mode)
        /\ k = 0 /\ pc = "header" /\ crashed = FALSE

Op(name, nxt, l, t, r) == /\ pc = name /\ ~crashed /\ pc' = nxt
                          /\ log' = l /\ traj' = t /\ rst' = r /\ UNCHANGED <<crashed>>

WriteHeader  == Op("header", "log_write", FWrite(log, Header), traj, rst) /\ UNCHANGED k
LogWrite     == Op("log_write", "log_flush", FWrite(log, Row(k)), traj, rst) /\ UNCHANGED k
LogFlush     == Op("log_flush", "traj_w1", FFlush(log), traj, rst) /\ UNCHANGED k
TrajWrite1   == Op("traj_w1", "traj_w2", log, FWrite(traj, <<Frame(k)[1]>>), rst) /\ UNCHANGED k
TrajWrite2   == Op("traj_w2", "traj_w3", log, FWrite(traj, <<Frame(k)[2]>>), rst) /\ UNCHANGED k
TrajWrite3   == Op("traj_w3", "traj_flush", log, FWrite(traj, <<Frame(k)[3]>>), rst) /\ UNCHANGED k
TrajFlush    == Op("traj_flush", "rst_seek", log, FFlush(traj), rst) /\ UNCHANGED k
RstSeek      == Op("rst_seek", "rst_trunc", log, traj, FSeek0(rst)) /\ UNCHANGED k
RstTruncate  == Op("rst_trunc", "rst_write", log, traj, FTruncate(rst)) /\ UNCHANGED k
RstWrite     == Op("rst_write", "rst_flush", log, traj, FWrite(rst, Json(k))) /\ UNCHANGED k
RstFlush     == /\ pc = "rst_flush" /\ ~crashed
                /\ rst' = FFlush(rst) /\ UNCHANGED <<log, traj, crashed>>
                /\ k' = k + 1
                /\ pc' = IF k + 1 < NCalls THEN "log_write" ELSE "end"

\* the process dies between two operations: each file keeps disk + any prefix of its buffer
Crash == /\ ~crashed /\ pc # "end"
         /\ \E l \in Survivors(log), t \in Survivors(traj), r \in Survivors(rst) :
               /\ log' = [log EXCEPT !.disk = l, !.buf = <<>>]
               /\ traj' = [traj EXCEPT !.disk = t, !.buf = <<>>]
               /\ rst' = [rst EXCEPT !.disk = r, !.buf = <<>>]
         /\ crashed' = TRUE /\ UNCHANGED <<k, pc>>

Next == WriteHeader \/ LogWrite \/ LogFlush \/ TrajWrite1 \/ TrajWrite2 \/ TrajWrite3 \/ TrajFlush
        \/ RstSeek \/ RstTruncate \/ RstWrite \/ RstFlush \/ Crash

Spec == Init /\ [][Next]_vars

(* ---- what has been completed ----------------------------------------------------- *)
LogCallsDone  == IF pc \in {"header", "log_write", "log_flush"} THEN k ELSE k + (IF pc = "end" THEN 0 ELSE 1)
TrajCallsDone == IF pc \in {"header", "log_write", "log_flush", "traj_w1", "traj_w2", "traj_w3", "traj_flush"} THEN k
                 ELSE k + (IF pc = "end" THEN 0 ELSE 1)
RstCallsDone  == k

(* ---- properties --------------------------------------------------------------------- *)
\* after every completed round of observer calls the records are on disk, nothing is left in a buffer
Quiet == ~crashed /\ pc \in {"log_write", "end"} /\ k > 0
C16_AfterCall == Quiet =>
    /\ log.disk = Header \o Rows(k) /\ log.buf = <<>>
    /\ traj.disk = Frames(k) /\ traj.buf = <<>>
    /\ rst.disk = Json(k - 1) /\ rst.buf = <<>>          \* exactly one document: the latest, also when it shrank
\* after a crash: completed rows and frames are intact
CompletedLog     == IF LogCallsDone = 0 THEN <<>> ELSE Header \o Rows(LogCallsDone)
C16_LogIntact    == crashed => IsPrefix(CompletedLog, log.disk)
C16_FramesIntact == crashed => IsPrefix(Frames(TrajCallsDone), traj.disk)
\* ... and the restart file, once one has been written, loads to a state that was saved
C16_RestartLoads == (crashed /\ RstCallsDone > 0) => \E j \in 0..k : rst.disk = Json(j)
=============================================================================
