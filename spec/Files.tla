------------------------------ MODULE Files ------------------------------
(* C16 -- output files after every observer call and after a crash at any
   point (io/logger.py, io/trajectory.py, io/restart.py, io/core.py).

   A file is [disk, buf, pos, mode]: what has reached the disk, what has been
   written but not flushed, the write position, and the open mode ("a": every
   flush appends; "w": a flush writes at pos, overwriting).  Content is a
   sequence of *units* (pieces of a header, a log row, an xyz frame, a json
   document), so a record can be torn.  CPython flushes its buffer whenever it
   fills, therefore after a crash the file holds the disk content plus an
   ARBITRARY PREFIX of the buffer.

   Observer calls are sequences of primitive operations, exactly as in
   Logger.__call__ (write row; flush), Driver.irun (write header),
   TrajectoryObserver.__call__ (write_xyz = several writes; flush) and
   RestartObserver.__call__ (seek 0; truncate; write json; flush).         *)
EXTENDS Integers, Sequences, FiniteSets, TLC, SequencesExt

(* ---- file semantics ------------------------------------------------------- *)
Apply(disk, pos, buf, mode) ==
    IF mode = "a" THEN disk \o buf
    ELSE SubSeq(disk, 1, pos) \o buf \o SubSeq(disk, pos + Len(buf) + 1, Len(disk))

FWrite(f, units) == [f EXCEPT !.buf = @ \o units]
FFlush(f) == LET d == Apply(f.disk, f.pos, f.buf, f.mode)
             IN [f EXCEPT !.disk = d, !.buf = <<>>,
                          !.pos = IF Len(f.buf) = 0 THEN f.pos        \* nothing pending: the position stays
                                  ELSE IF f.mode = "a" THEN Len(d) ELSE f.pos + Len(f.buf)]
FSeek0(f) == [FFlush(f) EXCEPT !.pos = 0]
FTruncate(f) == LET g == FFlush(f) IN [g EXCEPT !.disk = SubSeq(g.disk, 1, g.pos)]

BufPrefixes(q) == {SubSeq(q, 1, k) : k \in 0..Len(q)}
\* every content the file can have if the process dies now
Survivors(f) == {Apply(f.disk, f.pos, p, f.mode) : p \in BufPrefixes(f.buf)}

NewFile(mode) == [disk |-> <<>>, buf |-> <<>>, pos |-> 0, mode |-> mode]

(* ---- records ---------------------------------------------------------------- *)
CONSTANTS Mode,          \* "a" or "w"
          NCalls         \* observer calls per file

Header == << <<"h", 0, 1>> >>
Row(k) == << <<"r", k, 1>>, <<"r", k, 2>> >>
Frame(k) == << <<"f", k, 1>>, <<"f", k, 2>>, <<"f", k, 3>> >>
\* the serialized state grows and shrinks (grand canonical): sizes 2, 3, 1, 3, ...
JsonSize(k) == CASE k % 3 = 0 -> 2 [] k % 3 = 1 -> 3 [] OTHER -> 1
Json(k) == [i \in 1..JsonSize(k) |-> <<"j", k, i>>]

\* rounds in F are rounds whose logger call FAILED (a user-supplied column raised while the row was being assembled):
\* the exception leaves the observer round, nothing of that round is written, the user carries on with the next run call
RECURSIVE RowsX(_, _)
RowsX(n, F) == IF n = 0 THEN <<>> ELSE RowsX(n - 1, F) \o (IF (n - 1) \in F THEN <<>> ELSE Row(n - 1))
RECURSIVE FramesX(_, _)
FramesX(n, F) == IF n = 0 THEN <<>> ELSE FramesX(n - 1, F) \o (IF (n - 1) \in F THEN <<>> ELSE Frame(n - 1))
LastOK(n, F) == IF \E j \in 0..(n - 1) : j \notin F THEN CHOOSE j \in 0..(n - 1) : j \notin F /\ \A i \in 0..(n - 1) : (i \notin F => i <= j) ELSE -1
\* what a file opened in 'a' mode may already hold (an earlier simulation logged to the same path)
Old == << <<"o", 0, 1>> >>

(* ---- the process --------------------------------------------------------------- *)
VARIABLES log, traj, rst, k, pc, crashed, failed, old

vars == <<log, traj, rst, k, pc, crashed, failed, old>>
Rows(n) == RowsX(n, failed)
Frames(n) == FramesX(n, failed)

\* pc: which primitive operation comes next within call k
Init == /\ old \in (IF Mode = "a" THEN {<<>>, Old} ELSE {<<>>})
        /\ log = [NewFile(Mode) EXCEPT !.disk = old, !.pos = Len(old)]
        /\ traj = [NewFile(Mode) EXCEPT !.disk = old, !.pos = Len(old)] /\ rst = NewFile(Mode)
        /\ k = 0 /\ pc = "header" /\ crashed = FALSE /\ failed = {}

Op(name, nxt, l, t, r) == /\ pc = name /\ ~crashed /\ pc' = nxt
                          /\ log' = l /\ traj' = t /\ rst' = r /\ UNCHANGED <<crashed, failed, old>>

WriteHeader  == Op("header", "log_write", FWrite(log, Header), traj, rst) /\ UNCHANGED k
LogWrite     == Op("log_write", "log_flush", FWrite(log, Row(k)), traj, rst) /\ UNCHANGED k
LogFlush     == Op("log_flush", "traj_w1", FFlush(log), traj, rst) /\ UNCHANGED k
TrajWrite1   == Op("traj_w1", "traj_w2", log, FWrite(traj, <<Frame(k)[1]>>), rst) /\ UNCHANGED k
TrajWrite2   == Op("traj_w2", "traj_w3", log, FWrite(traj, <<Frame(k)[2]>>), rst) /\ UNCHANGED k
TrajWrite3   == Op("traj_w3", "traj_flush", log, FWrite(traj, <<Frame(k)[3]>>), rst) /\ UNCHANGED k
TrajFlush    == Op("traj_flush", "rst_seek", log, FFlush(traj), rst) /\ UNCHANGED k
RstSeek      == Op("rst_seek", "rst_trunc", log, traj, FSeek0(rst)) /\ UNCHANGED k
RstTruncate  == Op("rst_trunc", "rst_write", log, traj, FTruncate(rst)) /\ UNCHANGED k
RstWrite     == Op("rst_write", "rst_flush", log, traj, FWrite(rst, Json(k))) /\ UNCHANGED k
\* the row is assembled (every column evaluated) BEFORE the single write: a failing column writes nothing
LogFail      == /\ pc = "log_write" /\ ~crashed /\ failed = {} /\ k + 1 < NCalls
                /\ failed' = failed \cup {k} /\ k' = k + 1
                /\ UNCHANGED <<log, traj, rst, pc, crashed, old>>
RstFlush     == /\ pc = "rst_flush" /\ ~crashed
                /\ rst' = FFlush(rst) /\ UNCHANGED <<log, traj, crashed, failed, old>>
                /\ k' = k + 1
                /\ pc' = IF k + 1 < NCalls THEN "log_write" ELSE "end"

\* the process dies between two operations: each file keeps disk + any prefix of its buffer
Crash == /\ ~crashed /\ pc # "end"
         /\ \E l \in Survivors(log), t \in Survivors(traj), r \in Survivors(rst) :
               /\ log' = [log EXCEPT !.disk = l, !.buf = <<>>]
               /\ traj' = [traj EXCEPT !.disk = t, !.buf = <<>>]
               /\ rst' = [rst EXCEPT !.disk = r, !.buf = <<>>]
         /\ crashed' = TRUE /\ UNCHANGED <<k, pc, failed, old>>

Next == WriteHeader \/ LogWrite \/ LogFlush \/ TrajWrite1 \/ TrajWrite2 \/ TrajWrite3 \/ TrajFlush
        \/ RstSeek \/ RstTruncate \/ RstWrite \/ RstFlush \/ Crash \/ LogFail

Spec == Init /\ [][Next]_vars

(* ---- what has been completed ----------------------------------------------------- *)
LogCallsDone  == IF pc \in {"header", "log_write", "log_flush"} THEN k ELSE k + (IF pc = "end" THEN 0 ELSE 1)
TrajCallsDone == IF pc \in {"header", "log_write", "log_flush", "traj_w1", "traj_w2", "traj_w3", "traj_flush"} THEN k
                 ELSE k + (IF pc = "end" THEN 0 ELSE 1)
RstCallsDone  == IF LastOK(k, failed) >= 0 THEN 1 ELSE 0      \* has a restart document been completely written?

(* ---- properties --------------------------------------------------------------------- *)
\* after every completed round of observer calls the records are on disk, nothing is left in a buffer
Quiet == ~crashed /\ pc \in {"log_write", "end"} /\ k > 0 /\ (k - 1) \notin failed    \* (after a FAILED round only C16_NoTornRow is claimed)
C16_AfterCall == Quiet =>
    /\ log.disk = old \o Header \o Rows(k) /\ log.buf = <<>>        \* the header also when the file already held something
    /\ traj.disk = old \o Frames(k) /\ traj.buf = <<>>
    /\ rst.disk = (IF LastOK(k, failed) < 0 THEN <<>> ELSE Json(LastOK(k, failed))) /\ rst.buf = <<>>   \* exactly one document: the latest, also when it shrank
\* after a crash: completed rows and frames are intact
CompletedLog     == IF Rows(LogCallsDone) = <<>> THEN old ELSE old \o Header \o Rows(LogCallsDone)   \* (the header reaches the disk with the first row)
C16_LogIntact    == crashed => IsPrefix(CompletedLog, log.disk)
C16_FramesIntact == crashed => IsPrefix(old \o Frames(TrajCallsDone), traj.disk)
\* every record in the log is complete whenever no call is in progress (also after a failed call)
C16_NoTornRow    == (~crashed /\ pc \in {"log_write", "end"}) => \A i \in 1..Len(log.disk) : log.disk[i][1] = "r" =>
                        \E j \in 1..Len(log.disk) : log.disk[j] = <<"r", log.disk[i][2], 3 - log.disk[i][3]>>
\* ... and the restart file, once one has been written, loads to a state that was saved
C16_RestartLoads == (crashed /\ RstCallsDone > 0) => \E j \in 0..k : rst.disk = Json(j)
=============================================================================
