CONSTANTS
  Mode = "w"
  NCalls = 3
SPECIFICATION Spec
INVARIANT C16_RestartLoads
