CONSTANTS
  Mode = "a"
  NCalls = 3
SPECIFICATION Spec
INVARIANT C16_RestartLoads
