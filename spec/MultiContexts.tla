--------------------------- MODULE MultiContexts ---------------------------
(* Several systems managed as one (mc/contexts.py: MultiContexts, the state
   holder meant for multi-system drivers): save_state / revert_state of the
   manager are the member operations applied to EVERY member, members stay
   usable on their own, and a member's trial never touches another member.

   This is C03's statement lifted to a family of systems: after "revert" every
   member shows what it showed at its last save, whatever was tried on which
   member in between, in whatever order.

   A member's observable state is abstracted to a token (a natural number; the
   replay maps tokens to digests of the real atoms: positions, cell, numbers,
   momenta and the remembered reference).  Trying a move on member i gives i a
   token never seen before.  *)
EXTENDS Integers, Sequences, FiniteSets, TLC, Json, IOUtils

N == 2
MaxLen == IF "MULTI_LEN" \in DOMAIN IOEnv THEN (IF IOEnv.MULTI_LEN = "6" THEN 6 ELSE 5) ELSE 4
Members == 1..N

VARIABLES cur, saved, fresh, hist
vars == <<cur, saved, fresh, hist>>

Init == cur = [i \in Members |-> i] /\ saved = [i \in Members |-> i] /\ fresh = N + 1 /\ hist = <<>>

\* one trial per member between two of its saves / reverts (the engine's protocol: a trial ends with one or the other)
Try(i) ==       /\ cur[i] = saved[i]
                /\ cur' = [cur EXCEPT ![i] = fresh] /\ fresh' = fresh + 1 /\ UNCHANGED saved
                /\ hist' = Append(hist, [op |-> "try", i |-> i])
SaveAll ==      /\ saved' = cur /\ UNCHANGED <<cur, fresh>> /\ hist' = Append(hist, [op |-> "save_all", i |-> 0])
RevertAll ==    /\ cur' = saved /\ UNCHANGED <<saved, fresh>> /\ hist' = Append(hist, [op |-> "revert_all", i |-> 0])
SaveOne(i) ==   /\ saved' = [saved EXCEPT ![i] = cur[i]] /\ UNCHANGED <<cur, fresh>> /\ hist' = Append(hist, [op |-> "save", i |-> i])
RevertOne(i) == /\ cur' = [cur EXCEPT ![i] = saved[i]] /\ UNCHANGED <<saved, fresh>> /\ hist' = Append(hist, [op |-> "revert", i |-> i])

Next == /\ Len(hist) < MaxLen
        /\ \/ \E i \in Members : Try(i) \/ SaveOne(i) \/ RevertOne(i)
           \/ SaveAll \/ RevertAll
Spec == Init /\ [][Next]_vars

Last == hist[Len(hist)]
M_RevertAllRestoresEveryMember == (Len(hist) > 0 /\ Last.op = "revert_all") => cur = saved
M_SaveAllRemembersEveryMember  == (Len(hist) > 0 /\ Last.op = "save_all") => saved = cur
\* a trial on one member, or a member's own save / revert, leaves the others exactly as they were
M_MembersIndependent == [][\A i \in Members : (hist' # hist /\ hist'[Len(hist')].i = i) =>
                              \A j \in Members \ {i} : cur'[j] = cur[j] /\ saved'[j] = saved[j]]_vars
\* what a member remembers is always something it once showed (never another member's state, never something made up)
M_SavedWasShown == \A i \in Members : saved[i] = i \/ (saved[i] > N /\ saved[i] < fresh)
\* the manager's operations are the members' operations: SaveAll = SaveOne(1) ; ... ; SaveOne(N) (checked as equality of outcomes)
M_AllIsEach == [][(hist' # hist /\ hist'[Len(hist')].op = "save_all") => saved' = [i \in Members |-> cur[i]]]_vars

\* export: every complete history with the states after each of its steps (recomputed functionally)
RECURSIVE Run(_, _, _, _)
Run(h, c, sv, f) == IF Len(h) = 0 THEN <<>> ELSE
    LET e == Head(h)
        c2 == CASE e.op = "try" -> [c EXCEPT ![e.i] = f] [] e.op = "revert_all" -> sv [] e.op = "revert" -> [c EXCEPT ![e.i] = sv[e.i]] [] OTHER -> c
        s2 == CASE e.op = "save_all" -> c [] e.op = "save" -> [sv EXCEPT ![e.i] = c[e.i]] [] OTHER -> sv
    IN <<[op |-> e.op, i |-> e.i, cur |-> c2, saved |-> s2]>> \o Run(Tail(h), c2, s2, IF e.op = "try" THEN f + 1 ELSE f)
Steps == Run(hist, [i \in Members |-> i], [i \in Members |-> i], N + 1)
M_FunctionalAgrees == Len(hist) > 0 => (Steps[Len(hist)].cur = cur /\ Steps[Len(hist)].saved = saved)
Emit == PrintT("@@" \o ToJson([steps |-> Steps]))
EmitAll == (Len(hist) = MaxLen) => Emit
=============================================================================
