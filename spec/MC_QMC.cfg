CONSTANTS
  MaxTrials = 2
  MaxAtoms = 4
SPECIFICATION Spec
INVARIANT C03_RestoreOnRejectOrFail
INVARIANT C03_NoPendingAtRest
INVARIANT C04_OwnAtRest
INVARIANT C04_AtMostOneEval
INVARIANT C05_AlignedAtRest
INVARIANT C05_Count
INVARIANT C05_TemplateUntouched
INVARIANT C05_InsertedParticlesShareOneLabel
INVARIANT C11_OnlyChosenMove
INVARIANT C11_NoRepeatInComposite
INVARIANT C12_FixedNeverMove
