----------------------------- MODULE Verlet -----------------------------
(* C14 -- the velocity-Verlet integrator (integrators/displacement.py) on a
   dyadic lattice where its arithmetic is exact.

   One particle of unit mass per coordinate in the harmonic well F = -x;
   time step dt = 2^-S; initial x, p multiples of 1/4.  Every intermediate
   value is a dyadic rational, so all quantities are kept as integers scaled
   by 2^Q (Q chosen so that every division below is exact -- checked by the
   invariant Exact), and IEEE doubles represent the same values exactly: the
   implementation must reproduce the trajectory BIT FOR BIT.

   The integration is half kick - drift - half kick, N times, with one force
   evaluation before the loop and one per step; reversing the momenta and
   integrating again must return exactly to the start.                     *)
EXTENDS Integers, Sequences, FiniteSets, TLC, Json, IOUtils, SequencesExt

OutFile == IF "VER_OUT" \in DOMAIN IOEnv THEN IOEnv.VER_OUT ELSE ""

RECURSIVE Pow2(_)
Pow2(n) == IF n = 0 THEN 1 ELSE 2 * Pow2(n - 1)

SN == {<<1, 1>>, <<1, 2>>, <<1, 3>>, <<2, 1>>, <<2, 2>>, <<3, 1>>}       \* <<S, N>>: dt = 2^-S, N steps
Q(S, N) == 2 + (2 * S + 1) * 2 * N + (S + 1)
Grid == {-8, -5, -4, -1, 0, 1, 3, 4, 8}                                   \* quarters

VARIABLES S, N, x, p, f, nev, phase, k, start, exact

vars == <<S, N, x, p, f, nev, phase, k, start, exact>>

Force(xx) == -xx                                                          \* harmonic well, unit spring constant
Div(a, b) == a \div b
IsExact(a, b) == a % b = 0

Init == /\ \E sn \in SN : S = sn[1] /\ N = sn[2]
        /\ \E x0 \in Grid, p0 \in Grid :
              /\ x = x0 * Pow2(Q(S, N) - 2) /\ p = p0 * Pow2(Q(S, N) - 2)
              /\ start = <<x0 * Pow2(Q(S, N) - 2), p0 * Pow2(Q(S, N) - 2)>>
        /\ f = 0 /\ nev = 0 /\ phase = "fwd_eval" /\ k = 0 /\ exact = TRUE

\* forces = atoms.get_forces()            (once, before the loop)
FirstEval == /\ phase \in {"fwd_eval", "bwd_eval"}
             /\ f' = Force(x) /\ nev' = nev + 1
             /\ phase' = IF phase = "fwd_eval" THEN "fwd" ELSE "bwd"
             /\ UNCHANGED <<S, N, x, p, k, start, exact>>

\* one iteration of the loop: half kick, drift, force evaluation, half kick
Step == /\ phase \in {"fwd", "bwd"} /\ k < N
        /\ LET ph == p + Div(f, Pow2(S + 1))                \* p + f dt/2
               xn == x + Div(ph, Pow2(S))                   \* x + (p/m) dt
               fn == Force(xn)
               pn == ph + Div(fn, Pow2(S + 1))
           IN /\ x' = xn /\ p' = pn /\ f' = fn
              /\ exact' = (exact /\ IsExact(f, Pow2(S + 1)) /\ IsExact(ph, Pow2(S)) /\ IsExact(fn, Pow2(S + 1)))
        /\ nev' = nev + 1 /\ k' = k + 1
        /\ UNCHANGED <<S, N, phase, start>>

\* negate all momenta and integrate again
Flip == /\ phase = "fwd" /\ k = N
        /\ p' = -p /\ phase' = "bwd_eval" /\ k' = 0 /\ nev' = 0
        /\ UNCHANGED <<S, N, x, f, start, exact>>

Finish == /\ phase = "bwd" /\ k = N
          /\ p' = -p /\ phase' = "done"
          /\ UNCHANGED <<S, N, x, f, nev, k, start, exact>>

Next == FirstEval \/ Step \/ Flip \/ Finish
Spec == Init /\ [][Next]_vars

C14_Exact == exact
C14_Reversible == phase = "done" => <<x, p>> = start
C14_ForceEvaluations == ((phase = "fwd" /\ k = N) \/ phase = "done") => nev = N + 1
\* the harmonic Verlet map conserves the shadow energy  x^2 + p^2 - (dt^2/4) x^2  exactly; checked where it fits 32 bits
Shadow(xx, pp) == LET a == xx \div Pow2(Q(S, N) - 12) b == pp \div Pow2(Q(S, N) - 12) IN <<a, b>>

(* ---- export: forward trajectory end points for bit-exact comparison ---------------------------------- *)
RECURSIVE Traj(_, _, _, _, _)
Traj(s, n, xx, pp, i) ==
    IF i = n THEN <<xx, pp>>
    ELSE LET ff == Force(xx)
             ph == pp + Div(ff, Pow2(s + 1))
             xn == xx + Div(ph, Pow2(s))
             pn == ph + Div(Force(xn), Pow2(s + 1))
         IN Traj(s, n, xn, pn, i + 1)
Cases == {[s |-> sn[1], n |-> sn[2], q |-> Q(sn[1], sn[2]), x0 |-> x0, p0 |-> p0,
           xend |-> Traj(sn[1], sn[2], x0 * Pow2(Q(sn[1], sn[2]) - 2), p0 * Pow2(Q(sn[1], sn[2]) - 2), 0)[1],
           pend |-> Traj(sn[1], sn[2], x0 * Pow2(Q(sn[1], sn[2]) - 2), p0 * Pow2(Q(sn[1], sn[2]) - 2), 0)[2]]
          : sn \in SN, x0 \in Grid, p0 \in Grid}
Export ==
    IF TLCGet("stats").distinct < 0 \/ OutFile = "" THEN TRUE
    ELSE ndJsonSerialize(OutFile, SetToSeq(Cases))
=============================================================================
