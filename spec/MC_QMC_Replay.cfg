CONSTANTS
  MaxTrials = 2
  MaxAtoms = 4
SPECIFICATION RSpec
INVARIANT Emit
