--------------------------- MODULE HeaderFormat ---------------------------
(* How the logger derives the format of a header cell from the format of the
   data cell below it (utils/strings.py: get_auto_header_format, used by
   Logger.add_field when no header format is given) -- the part of "the header
   names the columns of the rows" (C16, LoggerFields.tla) that is about text:
   the name of a column must stand over its values.

   A format string is a sequence of items: colon-free literal text, or a
   replacement field "{" [":" spec] "}" with Python's mini-language

        spec ::= [[fill]align][sign]["0"][width][","]["." precision][type]

   kept as a record of its parts (each part a string, "" = absent), so that
   the text of a field is the concatenation of its parts and the derivation
   can be written as what it is in the code: a regular expression that is
   anchored at the colon and knows two optional groups, an alignment character
   DIRECTLY after the colon and digits DIRECTLY after that; whatever follows up
   to the closing brace is dropped and replaced by the type "s".

   What a user relies on (the invariants named H_...): the derivation keeps the structure of the
   format string; for a field in the documented plain form [align][width][.p][type]
   the header cell has the width of the data cell (10 where none is given) and
   its alignment (right where none is given); a header cell is always a valid
   string cell.

   Deviations of the code from "the header cell is a space-padded cell of the
   same width", named here because the specification models what the code does:
     ZeroFlagLeaks   the zero flag of a numeric cell ("{:010.3f}") is taken for
                     part of the width, so the column name is padded with zeros
                     ("00Epot[eV]"); the width itself stays right;
     HiddenWidth     a fill character or a sign in front of the width hides it:
                     the header cell falls back to ">10" whatever the width was
                     (the documented fallback of the function).
   Neither touches a listed property (the number of cells per line is
   LoggerFields.tla's subject); both are recorded as observations in DESIGN.md. *)
EXTENDS Integers, Sequences, FiniteSets, TLC, Json, IOUtils

Deep == IF "HDR_DEEP" \in DOMAIN IOEnv THEN IOEnv.HDR_DEEP = "1" ELSE FALSE

Fills   == {"", "*"}
Aligns  == {"", "<", ">", "^"}
Signs   == {"", "+"}
Zeros   == {"", "0"}
Widths  == IF Deep THEN {"", "4", "12", "24"} ELSE {"", "4", "12"}
Groups  == {"", ","}
Precs   == IF Deep THEN {"", ".3", ".0"} ELSE {"", ".3"}
Types   == IF Deep THEN {"", "f", "d", "s", "e", "g"} ELSE {"", "f", "d", "s"}
Prefix  == IF Deep THEN {"", "0", "!r"} ELSE {""}          \* field name / conversion in front of the colon: not the derivation's business

Bare == [bare |-> TRUE, pre |-> "", fill |-> "", align |-> "", sign |-> "", zero |-> "", width |-> "", group |-> "", prec |-> "", type |-> ""]
Specs == {[bare |-> FALSE, pre |-> q, fill |-> f, align |-> a, sign |-> s, zero |-> z, width |-> w, group |-> g, prec |-> p, type |-> t] :
              q \in Prefix, f \in Fills, a \in Aligns, s \in Signs, z \in Zeros, w \in Widths, g \in Groups, p \in Precs, t \in Types}
Fields == {Bare} \cup {x \in Specs : x.fill # "" => x.align # ""}      \* a fill character needs an alignment

\* a few representative fields for format strings with several cells
Repr == {Bare,
         [Bare EXCEPT !.bare = FALSE, !.width = "12", !.prec = ".3", !.type = "f"],
         [Bare EXCEPT !.bare = FALSE, !.align = "<", !.width = "4", !.type = "s"],
         [Bare EXCEPT !.bare = FALSE, !.zero = "0", !.width = "4", !.type = "d"],
         [Bare EXCEPT !.bare = FALSE, !.sign = "+", !.width = "12", !.prec = ".3", !.type = "f"],
         [Bare EXCEPT !.bare = FALSE, !.prec = ".3", !.type = "f"]}
Literals == {"", "T ", " | "}

(* ---- text of a field ------------------------------------------------------------------------------ *)
FieldText(x) == IF x.bare THEN "{}"
                ELSE "{" \o x.pre \o ":" \o x.fill \o x.align \o x.sign \o x.zero \o x.width \o x.group \o x.prec \o x.type \o "}"

(* ---- the derivation, group by group, as the code's regular expression reads the text ---------------- *)
AlignSeen(x) == IF x.fill = "" THEN x.align ELSE ""                    \* "*" is not an alignment character
DigitsSeen(x) == IF x.fill = "" /\ x.sign = "" THEN x.zero \o x.width ELSE ""   \* digits directly after [align]
Header(x) == IF x.bare THEN [bare |-> TRUE, pre |-> "", align |-> "", digits |-> ""]
             ELSE [bare |-> FALSE, pre |-> x.pre,
                   align  |-> IF AlignSeen(x) = "" THEN ">" ELSE AlignSeen(x),
                   digits |-> IF DigitsSeen(x) = "" THEN "10" ELSE DigitsSeen(x)]
HeaderText(h) == IF h.bare THEN "{}" ELSE "{" \o h.pre \o ":" \o h.align \o h.digits \o "s}"

\* how Python reads the digits of a string cell: a leading "0" is the zero flag, the rest the width
ZeroPadded(h) == ~h.bare /\ h.digits \in {"0", "04", "012", "024"}
WidthOfDigits(d) == CASE d \in {"4", "04"} -> 4 [] d \in {"12", "012"} -> 12 [] d \in {"24", "024"} -> 24 [] d = "10" -> 10 [] OTHER -> 0
WidthOf(w) == WidthOfDigits(w)

Plain(x) == ~x.bare /\ x.fill = "" /\ x.sign = "" /\ x.zero = ""      \* the documented form
ZeroFlagLeaks(x) == ~x.bare /\ x.fill = "" /\ x.sign = "" /\ x.zero = "0"
HiddenWidth(x) == ~x.bare /\ (x.fill # "" \/ x.sign # "") /\ x.width # ""

(* ---- one state = one format string of 1..3 items ----------------------------------------------------- *)
VARIABLES fmt         \* sequence of items: [lit |-> text] or [fld |-> field]
vars == <<fmt>>

IsLit(i) == "lit" \in DOMAIN i
Singles == {<<[fld |-> x]>> : x \in Fields}
Pairs == {<<[lit |-> a], [fld |-> x], [lit |-> b], [fld |-> y]>> : a \in {"", "T "}, b \in {" ", " | "}, x \in Repr, y \in Repr}
Init == fmt \in Singles \cup Pairs
Next == UNCHANGED fmt
Spec == Init /\ [][Next]_vars

RECURSIVE Text(_), HText(_)
Text(s)  == IF Len(s) = 0 THEN "" ELSE (IF IsLit(Head(s)) THEN Head(s).lit ELSE FieldText(Head(s).fld)) \o Text(Tail(s))
HText(s) == IF Len(s) = 0 THEN "" ELSE (IF IsLit(Head(s)) THEN Head(s).lit ELSE HeaderText(Header(Head(s).fld))) \o HText(Tail(s))

FieldsOf(s) == SelectSeq(s, LAMBDA i : ~IsLit(i))

(* ---- what a user relies on ------------------------------------------------------------------------------ *)
\* plain cells: same width (10 where the data cell has none), same alignment (right where it has none), space padded
H_PlainAligned == \A k \in 1..Len(FieldsOf(fmt)) :
    LET x == FieldsOf(fmt)[k].fld   h == Header(x)
    IN Plain(x) => /\ WidthOf(h.digits) = (IF x.width = "" THEN 10 ELSE WidthOf(x.width))
                   /\ h.align = (IF x.align = "" THEN ">" ELSE x.align)
                   /\ ~ZeroPadded(h)
\* every header cell is a string cell whose width is a width the data cell could have (never a made-up number)
H_WidthFromData == \A k \in 1..Len(FieldsOf(fmt)) :
    LET x == FieldsOf(fmt)[k].fld   h == Header(x)
    IN ~x.bare => WidthOf(h.digits) \in {10, WidthOf(x.width)} \/ (x.width = "" /\ h.digits = "0")
\* the deviations are exactly the named ones
H_DeviationsNamed == \A k \in 1..Len(FieldsOf(fmt)) :
    LET x == FieldsOf(fmt)[k].fld   h == Header(x)
    IN /\ ZeroPadded(h) <=> ZeroFlagLeaks(x)
       /\ (~x.bare /\ x.width # "" /\ WidthOf(h.digits) # WidthOf(x.width)) <=> (HiddenWidth(x) /\ x.width # "10")
\* a bare cell stays bare; the prefix (field name, conversion) is kept
H_Structure == \A k \in 1..Len(FieldsOf(fmt)) :
    LET x == FieldsOf(fmt)[k].fld   h == Header(x) IN h.bare = x.bare /\ h.pre = x.pre

(* ---- export: every format string with its expected header and what is claimed about each cell ------- *)
CellClaims(s) == [k \in 1..Len(FieldsOf(s)) |->
    LET x == FieldsOf(s)[k].fld   h == Header(x)
    IN [bare |-> x.bare, plain |-> Plain(x), type |-> x.type, data |-> FieldText(x), head |-> HeaderText(h),
        width |-> IF x.bare THEN 0 ELSE WidthOf(h.digits), align |-> h.align, zeropad |-> ZeroPadded(h),
        datawidth |-> IF x.width = "" THEN 0 ELSE WidthOf(x.width),
        leaks |-> ZeroFlagLeaks(x), hidden |-> HiddenWidth(x)]]
Emit == PrintT("@@" \o ToJson([fmt |-> Text(fmt), header |-> HText(fmt), cells |-> CellClaims(fmt)]))
EmitAll == Emit
=============================================================================
