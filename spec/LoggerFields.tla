--------------------------- MODULE LoggerFields ---------------------------
(* Field management of the simulation logger (io/logger.py: add_field,
   remove_fields, create_header, __call__) -- what C16 means by "one complete
   line per call": a line holds one value per configured column, in the order of
   the header, whatever sequence of add_field / remove_fields calls configured
   the logger.

   A field name is a string (a scalar column) or a tuple of strings (one array
   field = several columns, the documented form for arrays); strings are
   modelled as sets of letters, so that "the name contains the pattern" is set
   membership.  The fields form an insertion-ordered dictionary: adding a name
   that is already present replaces the field IN PLACE (its position is kept);
   remove_fields(p) drops every field one of whose component names contains p. *)
EXTENDS Integers, Sequences, FiniteSets, TLC, Json, IOUtils, SequencesExt

OutFile == IF "LOGF_OUT" \in DOMAIN IOEnv THEN IOEnv.LOGF_OUT ELSE ""
MaxLen == IF "LOGF_LEN" \in DOMAIN IOEnv THEN (IF IOEnv.LOGF_LEN = "5" THEN 5 ELSE 4) ELSE 4

\* names: scalar names are strings, array names tuples of strings
\* (TLC cannot compare a string with a tuple: every name is a record [arr, n]; a scalar name has one component)
\* comps: the component of the field's value that stands in each column (1..k for an ordinary array field)
Scalars == {[arr |-> FALSE, stress |-> FALSE, n |-> <<x>>, comps |-> <<1>>] : x \in {"a", "ab", "b", "c"}}
Tuples  == {[arr |-> TRUE, stress |-> FALSE, n |-> <<"a", "c">>, comps |-> <<1, 2>>], [arr |-> TRUE, stress |-> FALSE, n |-> <<"bc", "b">>, comps |-> <<1, 2>>]}
Names   == Scalars \cup Tuples
Patterns == {"a", "b", "c", "T"}

\* the convenience sets (add_mc_fields, add_md_fields, add_opt_fields): each is a fixed sequence of add_field calls on
\* scalar names; the sets SHARE names ("Epot[eV]" is in all three, "Class" and "Step" in two), so that a logger configured
\* with two sets has every shared column once, at the position of its first definition, holding the LATER set's value
Sets == {"mc", "md", "opt"}
SetNames(s) == CASE s = "mc"  -> <<"Class", "Step", "Epot[eV]">>
                 [] s = "md"  -> <<"Time[ps]", "Epot[eV]", "Ekin[eV]", "T[K]">>
                 [] s = "opt" -> <<"Class", "Step", "Time", "Epot[eV]", "Fmax[eV/A]">>
ScalarKey(x) == [arr |-> FALSE, stress |-> FALSE, n |-> <<x>>, comps |-> <<1>>]
SetKeys == UNION {{ScalarKey(SetNames(s)[i]) : i \in 1..Len(SetNames(s))} : s \in Sets}

\* add_stress_fields(atoms, mask): one array field whose columns are the Voigt components xx yy zz yz xz xy the mask
\* keeps, in that order, each named after its component; the value in a column is THAT component (not the k-th one)
Voigt == <<"Stress[xx][GPa]", "Stress[yy][GPa]", "Stress[zz][GPa]", "Stress[yz][GPa]", "Stress[xz][GPa]", "Stress[xy][GPa]">>
RECURSIVE Kept(_, _)
Kept(mask, j) == IF j > 6 THEN <<>> ELSE (IF j \in mask THEN <<j>> ELSE <<>>) \o Kept(mask, j + 1)
StressKey(mask) == LET k == Kept(mask, 1) IN [arr |-> TRUE, stress |-> TRUE, n |-> [i \in 1..Len(k) |-> Voigt[k[i]]], comps |-> k]
AllMasks == SUBSET (1..6)
FewMasks == {1..6, {}, {4, 6}}

\* "pattern in name" for the strings above (substring = letter membership for these one/two-letter names)
NameHas(name, p) == CASE name = "a" -> p = "a" [] name = "b" -> p = "b" [] name = "c" -> p = "c"
                       [] name = "ab" -> p \in {"a", "b"} [] name = "bc" -> p \in {"b", "c"}
                       [] name \in {Voigt[j] : j \in 1..6} -> p = "a"          \* "Stress[..][GPa]" contains an "a", no "b", no "c"
                       [] name \in {"Class", "Fmax[eV/A]"} -> p = "a"
                       [] name \in {"Time", "Time[ps]", "T[K]"} -> p = "T"
                       [] OTHER -> FALSE
Matches(k, p) == \E i \in 1..Len(k.n) : NameHas(k.n[i], p)

\* a field is [key, ver]: ver counts how often the key has been (re)defined, so that a replaced field is told
\* from the original (the replay gives every definition its own values)
VARIABLES fields, defs, hist
vars == <<fields, defs, hist>>

Init == fields = <<>> /\ defs = 0 /\ hist = <<>>

IndexOf(k) == IF \E i \in 1..Len(fields) : fields[i].key = k THEN CHOOSE i \in 1..Len(fields) : fields[i].key = k ELSE 0

AddField(k) == /\ defs' = defs + 1
               /\ fields' = IF IndexOf(k) = 0 THEN Append(fields, [key |-> k, ver |-> defs + 1])
                            ELSE [fields EXCEPT ![IndexOf(k)] = [key |-> k, ver |-> defs + 1]]
               /\ hist' = Append(hist, <<"add", k>>)

\* one add_field on a field list, functionally (shared by the set action and by Run below)
AddTo(fs, k, v) == LET idx == IF \E i \in 1..Len(fs) : fs[i].key = k THEN CHOOSE i \in 1..Len(fs) : fs[i].key = k ELSE 0
                   IN IF idx = 0 THEN Append(fs, [key |-> k, ver |-> v]) ELSE [fs EXCEPT ![idx] = [key |-> k, ver |-> v]]
RECURSIVE AddAll(_, _, _)
AddAll(fs, d, names) == IF names = <<>> THEN fs ELSE AddAll(AddTo(fs, ScalarKey(Head(names)), d + 1), d + 1, Tail(names))

AddSet(s) == /\ fields' = AddAll(fields, defs, SetNames(s))
             /\ defs' = defs + Len(SetNames(s))
             /\ hist' = Append(hist, <<"set", s>>)

RemoveFields(p) == /\ fields' = SelectSeq(fields, LAMBDA f : ~Matches(f.key, p))
                   /\ hist' = Append(hist, <<"remove", p>>) /\ UNCHANGED defs

\* (a history that starts with one of the 61 other masks is followed for one more call only: bounds the model)
RareStart == hist # <<>> /\ hist[1][1] = "add" /\ hist[1][2].stress /\ hist[1][2] \notin {StressKey(m) : m \in FewMasks}
Next == /\ Len(hist) < (IF RareStart THEN 2 ELSE MaxLen)
        /\ \/ \E k \in Names : AddField(k)
           \/ \E m \in (IF hist = <<>> THEN AllMasks ELSE FewMasks) : AddField(StressKey(m))    \* every mask as a first call, a few later
           \/ \E p \in Patterns : RemoveFields(p)
           \/ \E s \in Sets : AddSet(s)
Spec == Init /\ [][Next]_vars

\* columns of the header / of a row: one per scalar field, one per component of an array field
RECURSIVE Columns(_)
Columns(fs) == IF Len(fs) = 0 THEN <<>>
               ELSE [i \in 1..Len(Head(fs).key.n) |-> [name |-> Head(fs).key.n[i], ver |-> Head(fs).ver, comp |-> Head(fs).key.comps[i]]] \o Columns(Tail(fs))

LOG_KeysUnique == \A i, j \in 1..Len(fields) : i # j => fields[i].key # fields[j].key
LOG_RemovedAreGone == (Len(hist) > 0 /\ hist[Len(hist)][1] = "remove") => \A i \in 1..Len(fields) : ~Matches(fields[i].key, hist[Len(hist)][2])
AllKeys == Names \cup {StressKey(m) : m \in AllMasks} \cup SetKeys
\* a stress column is named after the component it holds, and the kept components come in Voigt order
LOG_StressColumns == \A i \in 1..Len(fields) : fields[i].key.stress =>
    LET k == fields[i].key IN /\ \A c \in 1..Len(k.n) : k.n[c] = Voigt[k.comps[c]]
                              /\ \A c, d \in 1..Len(k.comps) : c < d => k.comps[c] < k.comps[d]
LOG_ReplaceKeepsPosition ==
    [][\A k \in AllKeys : (hist' # hist /\ hist'[Len(hist')][1] = "add" /\ hist'[Len(hist')][2] = k /\ IndexOf(k) # 0) =>
            /\ Len(fields') = Len(fields) /\ \A i \in 1..Len(fields) : fields'[i].key = fields[i].key]_vars
\* a convenience set moves nothing that was there: the old fields keep their positions, the set's missing names are appended
\* in the set's order, and afterwards every name of the set is a column exactly once, carrying one of THIS call's definitions
LOG_SetKeepsPositions ==
    [][(hist' # hist /\ hist'[Len(hist')][1] = "set") =>
            /\ Len(fields') >= Len(fields) /\ \A i \in 1..Len(fields) : fields'[i].key = fields[i].key]_vars
LOG_SetComplete == (Len(hist) > 0 /\ hist[Len(hist)][1] = "set") =>
    LET ns == SetNames(hist[Len(hist)][2]) IN
      \A j \in 1..Len(ns) : /\ Cardinality({i \in 1..Len(fields) : fields[i].key = ScalarKey(ns[j])}) = 1
                             /\ fields[IndexOf(ScalarKey(ns[j]))].ver = defs - Len(ns) + j

(* ---- export: every reachable configuration history with its expected columns ----------------------- *)
RECURSIVE Run(_, _, _)
Run(h, fs, d) ==     \* replays a history functionally -> fields
    IF Len(h) = 0 THEN fs
    ELSE LET e == Head(h)
             idx == IF \E i \in 1..Len(fs) : fs[i].key = e[2] THEN CHOOSE i \in 1..Len(fs) : fs[i].key = e[2] ELSE 0
         IN IF e[1] = "set" THEN Run(Tail(h), AddAll(fs, d, SetNames(e[2])), d + Len(SetNames(e[2])))
            ELSE IF e[1] = "add"
            THEN Run(Tail(h), IF idx = 0 THEN Append(fs, [key |-> e[2], ver |-> d + 1]) ELSE [fs EXCEPT ![idx] = [key |-> e[2], ver |-> d + 1]], d + 1)
            ELSE Run(Tail(h), SelectSeq(fs, LAMBDA f : ~Matches(f.key, e[2])), d)
LOG_FunctionalAgrees == Run(hist, <<>>, 0) = fields

Emit == PrintT("@@" \o ToJson([hist |-> hist, columns |-> Columns(fields)]))
EmitAll == (Len(hist) >= 1) => Emit
=============================================================================
