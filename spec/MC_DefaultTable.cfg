SPECIFICATION Spec
INVARIANT T_SweepRecipe
INVARIANT T_Weights
INVARIANT T_NamesDistinct
INVARIANT T_NothingForced
INVARIANT EmitAll
