---------------------------- MODULE Observers ----------------------------
(* File ownership of observers (io/core.py: TextObserver.file setter / close;
   io/file.py: ObserverManager attach / detach / close) -- the mechanism the
   output-file property C16 rests on, specified beyond the listed properties.

   Files are "f1", "f2" (ordinary handles) and "std" (sys.stdout).  An observer
   owns the handle it was given; re-assigning its file closes the previous
   handle first; closing an observer closes its handle unless it is a standard
   stream; a closed handle can never be linked.  The manager registers the
   close of every observer it has ever been given and runs them all on close
   (also for observers detached in the meantime); after a close it can be
   used again.                                                             *)
EXTENDS Integers, Sequences, FiniteSets, TLC, Json, IOUtils, SequencesExt

OutFile == IF "OBS_OUT" \in DOMAIN IOEnv THEN IOEnv.OBS_OUT ELSE ""
MaxLen == IF "OBS_LEN" \in DOMAIN IOEnv THEN (IF IOEnv.OBS_LEN = "3" THEN 3 ELSE 4) ELSE 4

Files == {"f1", "f2", "std"}
Obs == {"o1", "o2"}
Names == {"a", "b"}

VARIABLES open,        \* [Files -> BOOLEAN]
          file,        \* [Obs -> Files]: the handle each observer currently holds
          attached,    \* [Names -> Obs \cup {"none"}]
          registered,  \* observers whose close the manager will run
          refused,     \* last action was refused (ValueError: closed file)
          hist

vars == <<open, file, attached, registered, refused, hist>>

Init == /\ open = [f \in Files |-> TRUE]
        /\ file = [o \in Obs |-> IF o = "o1" THEN "f1" ELSE "std"]
        /\ attached = [n \in Names |-> "none"] /\ registered = {}
        /\ refused = FALSE /\ hist = <<>>

CloseHandle(op, f) == IF f = "std" THEN op ELSE [op EXCEPT ![f] = FALSE]

Attach(n, o) == /\ attached' = [attached EXCEPT ![n] = o] /\ registered' = registered \cup {o}
                /\ refused' = FALSE /\ hist' = Append(hist, <<"attach", n, o>>)
                /\ UNCHANGED <<open, file>>

Detach(n, c) == /\ attached[n] # "none"
                /\ open' = IF c THEN CloseHandle(open, file[attached[n]]) ELSE open
                /\ attached' = [attached EXCEPT ![n] = "none"]
                /\ refused' = FALSE /\ hist' = Append(hist, <<"detach", n, IF c THEN "close" ELSE "keep">>)
                /\ UNCHANGED <<file, registered>>

\* observer.file = f : the previous handle is closed first; a closed handle is refused (the observer is then
\* left without a usable file: its previous handle has been closed already)
SetFile(o, f) == /\ LET op1 == CloseHandle(open, file[o])
                    IN IF ~op1[f] THEN /\ open' = op1 /\ refused' = TRUE /\ UNCHANGED file
                       ELSE /\ open' = op1 /\ file' = [file EXCEPT ![o] = f] /\ refused' = FALSE
                 /\ hist' = Append(hist, <<"setfile", o, f>>)
                 /\ UNCHANGED <<attached, registered>>

CloseObs(o) == /\ open' = CloseHandle(open, file[o])
               /\ refused' = FALSE /\ hist' = Append(hist, <<"close", o, "">>)
               /\ UNCHANGED <<file, attached, registered>>

RECURSIVE CloseAll(_, _)
CloseAll(op, S) == IF S = {} THEN op ELSE LET o == CHOOSE x \in S : TRUE IN CloseAll(CloseHandle(op, file[o]), S \ {o})

CloseManager == /\ open' = CloseAll(open, registered) /\ registered' = {}
                /\ refused' = FALSE /\ hist' = Append(hist, <<"close_manager", "", "">>)
                /\ UNCHANGED <<file, attached>>

Next == /\ Len(hist) < MaxLen
        /\ \/ \E n \in Names, o \in Obs : Attach(n, o)
           \/ \E n \in Names, c \in BOOLEAN : Detach(n, c)
           \/ \E o \in Obs, f \in Files : SetFile(o, f)
           \/ \E o \in Obs : CloseObs(o)
           \/ CloseManager

Spec == Init /\ [][Next]_vars

LastAct == IF Len(hist) = 0 THEN <<"", "", "">> ELSE hist[Len(hist)]
OBS_StdNeverClosed == open["std"]
OBS_SetFileClosesPrevious == [][\A o \in Obs, f \in Files : (hist' # hist /\ LastAct' = <<"setfile", o, f>> /\ file[o] # "std" /\ file[o] # f) => ~open'[file[o]]]_vars
OBS_NeverLinkClosed == [][\A o \in Obs : file'[o] # file[o] => open[file'[o]] \/ file'[o] = file[o]]_vars
\* closing the manager closes the handle of every observer it was given since its previous close.
\* (Observation, outside the listed properties: an observer that stays attached across a manager close and is
\* then given a new file is NOT closed by a second manager close -- the exit stack was emptied by the first.)
OBS_ManagerClosesRegistered ==
    [][(hist' # hist /\ LastAct'[1] = "close_manager") => \A o \in registered : (file[o] = "std" \/ ~open'[file[o]])]_vars

(* ---- export: every action sequence with the expected handle states ------------------------------- *)
Export == TRUE
=============================================================================
