---- MODULE DefaultCriteriaData ----
\* generated from the package at check time (harness/c02.py)
EXTENDS Sequences

Drivers == {"MonteCarlo", "Canonical", "HamiltonianCanonical", "Isobaric", "Isotension", "GrandCanonical"}
MoveClasses == {"BaseMove", "CellMove", "CompositeDisplacementMove", "CompositeExchangeMove", "CompositeMove", "DisplacementMove", "ExchangeMove", "HamiltonianDisplacementMove"}
Sub == {<<"BaseMove", "BaseMove">>, <<"CellMove", "BaseMove">>, <<"CellMove", "CellMove">>, <<"CompositeDisplacementMove", "CompositeDisplacementMove">>, <<"CompositeDisplacementMove", "CompositeMove">>, <<"CompositeExchangeMove", "CompositeExchangeMove">>, <<"CompositeExchangeMove", "CompositeMove">>, <<"CompositeMove", "CompositeMove">>, <<"DisplacementMove", "BaseMove">>, <<"DisplacementMove", "DisplacementMove">>, <<"ExchangeMove", "BaseMove">>, <<"ExchangeMove", "DisplacementMove">>, <<"ExchangeMove", "ExchangeMove">>, <<"HamiltonianDisplacementMove", "BaseMove">>, <<"HamiltonianDisplacementMove", "HamiltonianDisplacementMove">>}
Table(d) ==
    CASE d = "MonteCarlo" -> <<[cls |-> "BaseMove", crit |-> "BaseCriteria"]>>
      [] d = "Canonical" -> <<[cls |-> "DisplacementMove", crit |-> "CanonicalCriteria"], [cls |-> "HamiltonianDisplacementMove", crit |-> "HamiltonianCanonicalCriteria"]>>
      [] d = "HamiltonianCanonical" -> <<[cls |-> "DisplacementMove", crit |-> "CanonicalCriteria"], [cls |-> "HamiltonianDisplacementMove", crit |-> "HamiltonianCanonicalCriteria"]>>
      [] d = "Isobaric" -> <<[cls |-> "DisplacementMove", crit |-> "CanonicalCriteria"], [cls |-> "CellMove", crit |-> "IsobaricCriteria"]>>
      [] d = "Isotension" -> <<[cls |-> "DisplacementMove", crit |-> "CanonicalCriteria"], [cls |-> "CellMove", crit |-> "IsotensionCriteria"]>>
      [] d = "GrandCanonical" -> <<[cls |-> "ExchangeMove", crit |-> "GrandCanonicalCriteria"], [cls |-> "DisplacementMove", crit |-> "CanonicalCriteria"]>>
====
