------------------------------ MODULE SchedInd ------------------------------
(* C09 for EVERY number of trials per step and EVERY minimum count: the
   slot-by-slot process of Sched.tla on counters instead of sequences, with an
   inductive invariant that Apalache discharges for unbounded integers (TLC
   explores Sched.tla exhaustively only up to 3-4 trials per step and minimum
   counts up to 2).

   Three moves (the bound that remains); per move: whether it is due in this
   step, whether its weight is positive, its minimum count; the step has
   `cycles` slots.  The table is any table add_move admits (the minimum counts
   of ALL moves fit into the cycles) and that is schedulable (Sched.tla).

   Checked with
     apalache-mc check --init=IndInit --inv=IndInv --length=0 SchedInd.tla     (IndInit => IndInv)
     apalache-mc check --init=IndInv  --inv=IndInv --length=1 SchedInd.tla     (IndInv /\ Next => IndInv')
     apalache-mc check --init=IndInv  --inv=Contract --length=0 SchedInd.tla   (IndInv => Contract)
     apalache-mc check --init=IndInv  --inv=NoStall  --length=0 SchedInd.tla   (IndInv => NoStall)           *)
EXTENDS Integers

Moves == {"a", "b", "c"}

VARIABLES
    \* @type: Int;
    cycles,
    \* @type: Str -> Int;
    min,
    \* @type: Str -> Bool;
    due,
    \* @type: Str -> Bool;
    pos,
    \* @type: Str -> Int;
    left,
    \* @type: Str -> Int;
    cnt,
    \* @type: Str;
    phase

\* @type: (Str -> Int) => Int;
S(f) == f["a"] + f["b"] + f["c"]
Forced == [m \in Moves |-> IF due[m] THEN min[m] ELSE 0]
AnyDue == \E m \in Moves : due[m]
Remaining == cycles - S(cnt)

\* the table: admitted by add_move, schedulable in this step (constant during the step)
TableOK == /\ cycles >= 1
           /\ \A m \in Moves : min[m] >= 0
           /\ S(min) <= cycles
           /\ (~AnyDue \/ S(Forced) = cycles \/ \E m \in Moves : due[m] /\ pos[m])

IndInit == /\ cycles \in Nat /\ min \in [Moves -> Nat] /\ due \in [Moves -> BOOLEAN] /\ pos \in [Moves -> BOOLEAN]
           /\ TableOK
           /\ left = Forced /\ cnt = [m \in Moves |-> 0] /\ phase = "step"

EmitForced(m) == /\ phase = "step" /\ AnyDue /\ Remaining > 0 /\ left[m] > 0
                 /\ cnt' = [cnt EXCEPT ![m] = @ + 1] /\ left' = [left EXCEPT ![m] = @ - 1]
                 /\ UNCHANGED <<cycles, min, due, pos, phase>>
EmitFree(m) ==   /\ phase = "step" /\ Remaining > S(left) /\ due[m] /\ pos[m]
                 /\ cnt' = [cnt EXCEPT ![m] = @ + 1]
                 /\ UNCHANGED <<cycles, min, due, pos, phase, left>>
EndStep ==       /\ phase = "step" /\ (Remaining = 0 \/ ~AnyDue)
                 /\ phase' = "done" /\ UNCHANGED <<cycles, min, due, pos, left, cnt>>
Next == (\E m \in Moves : EmitForced(m) \/ EmitFree(m)) \/ EndStep

IndInv ==
    /\ cycles \in Nat /\ min \in [Moves -> Nat] /\ due \in [Moves -> BOOLEAN] /\ pos \in [Moves -> BOOLEAN]
    /\ left \in [Moves -> Nat] /\ cnt \in [Moves -> Nat] /\ phase \in {"step", "done"}
    /\ TableOK
    /\ \A m \in Moves : /\ ~due[m] => (left[m] = 0 /\ cnt[m] = 0)
                        /\ due[m] => (left[m] <= min[m] /\ cnt[m] >= min[m] - left[m])        \* forced attempts are counted
                        /\ (due[m] /\ ~pos[m]) => cnt[m] = min[m] - left[m]                     \* weight zero: never in a free slot
    /\ Remaining >= 0
    /\ AnyDue => S(left) <= Remaining                                                           \* the forced attempts still fit
    /\ phase = "done" => (Remaining = 0 \/ ~AnyDue)

\* Sched.tla's Allowed, on counters
Contract == phase = "done" =>
    IF ~AnyDue THEN S(cnt) = 0
    ELSE /\ S(cnt) = cycles
         /\ \A m \in Moves : /\ ~due[m] => cnt[m] = 0
                             /\ due[m] => cnt[m] >= min[m]
                             /\ (due[m] /\ ~pos[m]) => cnt[m] = min[m]
\* the process never gets stuck with slots to fill
NoStall == (phase = "step" /\ AnyDue /\ Remaining > 0) =>
    \/ \E m \in Moves : left[m] > 0
    \/ (Remaining > S(left) /\ \E m \in Moves : due[m] /\ pos[m])
=============================================================================
