SPECIFICATION TSpec
POSTCONDITION Consumed
