SPECIFICATION Spec
INVARIANT C15_Schedule
INVARIANT C15_HeaderOnce
INVARIANT C15_ExactSteps
INVARIANT C15_AbstractionInv
PROPERTY C15_AbstractionStep
INVARIANT C15_NeverTwice
INVARIANT C15_SplitInvariant
POSTCONDITION Export
