SPECIFICATION TSpec
POSTCONDITION Consumed
