---------------------------- MODULE Ensemble ----------------------------
(* C01 -- the ensembles sample the right distributions: detailed balance of the
   specified Metropolis kernels against the analytic stationary laws, on finite
   lattice instances where everything is an integer (energies, P V and mu in
   units of kT ln 2, so all weights are powers of two).

   Three chains, each a little state machine with the trial / accept-or-reject
   structure of MonteCarlo.step and the acceptance rule of Accept.tla:

   "canonical"  one particle on a ring of L sites with site energies E[i];
                proposal: hop to a neighbour, each with probability 1/2;
                log2 pi(i) = -E[i].
   "isobaric"   an ideal gas of N particles; volume V0 2^m; proposal m -> m +- 1
                (uniform in ln V, as the isotropic log-strain is);
                log2 A = -c (2^m' - 2^m) + (N + 1)(m' - m),   c = P V0 / (kT ln 2);
                target  pi(V) dV = V^N e^(-beta P V) dV  =>  on the m-lattice (dV ~ V dm)
                log2 pi(m) = (N + 1) m - c 2^m.
   "grand"      an ideal gas with activity z V / Lambda^3 = 2^a; insertion and deletion
                proposed with probability 1/2 each;
                A_ins = 2^a / (n + 1),  A_del = n / 2^a;   pi(n) = (2^a)^n / n!  (Poisson).

   DetailedBalance is stated for the transition just taken (an action property)
   in cross-multiplied integer / log2 form.  A rejected trial leaves the state
   unchanged (the self-loop carries the rejected mass).                     *)
EXTENDS Integers, Sequences, FiniteSets, TLC

RECURSIVE Pow2(_)
Pow2(n) == IF n = 0 THEN 1 ELSE 2 * Pow2(n - 1)
Min2(a, b) == IF a < b THEN a ELSE b

L == 6
Landscapes == { <<0, 1, 3, 0, 2, 5>>, <<0, 0, 0, 0, 0, 0>>, <<4, 0, 4, 0, 4, 0>>, <<0, 7, 1, 2, 9, 3>> }
MMax == 5
NMaxGC == 6

VARIABLES chain, par, st, prev, moved

vars == <<chain, par, st, prev, moved>>

Init == \/ /\ chain = "canonical" /\ par \in {[E |-> e] : e \in Landscapes} /\ st \in 1..L
        \/ /\ chain = "isobaric" /\ par \in {[N |-> n, c |-> cc] : n \in {1, 2, 4}, cc \in {1, 2, 3}} /\ st \in 0..MMax
        \/ /\ chain = "grand" /\ par \in {[a |-> aa] : aa \in {0, 1, 2}} /\ st \in 0..NMaxGC
   /\ prev = st /\ moved = FALSE

(* log2 of the acceptance ratio of the trial  s -> t  *)
LogA(s, t) ==
    CASE chain = "canonical" -> -(par.E[t] - par.E[s])
      [] chain = "isobaric"  -> -(par.c * (Pow2(t) - Pow2(s))) + (par.N + 1) * (t - s)
      [] OTHER -> 0
\* grand canonical ratios are not powers of two: A = num / den
ANum(s, t) == IF t = s + 1 THEN Pow2(par.a) ELSE s
ADen(s, t) == IF t = s + 1 THEN s + 1 ELSE Pow2(par.a)

Neighbours(s) ==
    CASE chain = "canonical" -> {((s - 2) % L) + 1, (s % L) + 1}
      [] chain = "isobaric"  -> {t \in {s - 1, s + 1} : t \in 0..MMax}
      [] OTHER               -> {t \in {s - 1, s + 1} : t \in 0..NMaxGC}

\* a trial: propose a neighbour, then accept (possible iff A > 0) or reject (possible iff A < 1)
Accept(t) == /\ t \in Neighbours(st)
             /\ prev' = st /\ st' = t /\ moved' = TRUE
             /\ UNCHANGED <<chain, par>>
Reject(t) == /\ t \in Neighbours(st)
             /\ IF chain = "grand" THEN ANum(st, t) < ADen(st, t) ELSE LogA(st, t) < 0     \* rejection has positive probability
             /\ prev' = st /\ st' = st /\ moved' = FALSE
             /\ UNCHANGED <<chain, par>>
Next == \E t \in Neighbours(st) : Accept(t) \/ Reject(t)
Spec == Init /\ [][Next]_vars

(* log2 of the stationary weight *)
LogPi(s) == CASE chain = "canonical" -> -par.E[s]
              [] chain = "isobaric"  -> (par.N + 1) * s - par.c * Pow2(s)
              [] OTHER -> 0

RECURSIVE Fact(_)
Fact(n) == IF n = 0 THEN 1 ELSE n * Fact(n - 1)

\* pi(s) P(s -> t) = pi(t) P(t -> s) for the move just made (proposal probabilities are symmetric and cancel)
C01_DetailedBalance ==
    moved =>
      IF chain = "grand"
      THEN \* pi(n) min(1, A) with pi(n) = 2^(a n) / n!, cross-multiplied by n! (n+1)! den's
           LET s == prev t == st
               lhs == Pow2(par.a * s) * Fact(t) * Min2(ADen(s, t), ANum(s, t)) * ADen(t, s)
               rhs == Pow2(par.a * t) * Fact(s) * Min2(ADen(t, s), ANum(t, s)) * ADen(s, t)
           IN lhs = rhs
      ELSE LogPi(prev) + Min2(0, LogA(prev, st)) = LogPi(st) + Min2(0, LogA(st, prev))
C01_RejectKeepsState == ~moved => st = prev
\* the reverse of every move is a move (needed for detailed balance to make sense)
C01_Reversible == moved => prev \in Neighbours(st)
=============================================================================
