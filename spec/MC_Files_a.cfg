CONSTANTS
  Mode = "a"
  NCalls = 3
SPECIFICATION Spec
INVARIANT C16_AfterCall
INVARIANT C16_LogIntact
INVARIANT C16_FramesIntact
INVARIANT C16_NoTornRow
