SPECIFICATION Spec
