SPECIFICATION Spec
INVARIANT C20_AlphabetOnly
INVARIANT C20_EvaluateOnlyAfterTruthy
INVARIANT C20_HistoryLength
INVARIANT C20_NotifiedPerAcceptedChange
INVARIANT C20_OneEvaluatePerAttempt
POSTCONDITION Export
