------------------------------ MODULE DriverInd ------------------------------
(* C15 for EVERY call length, EVERY number of calls and rebuilds and EVERY
   observer interval: Driver.tla's call-by-call, step-by-step machine on
   counters, with an inductive invariant that Apalache discharges for unbounded
   integers (TLC explores Driver.tla exhaustively for plans of at most 3 calls
   and 4-6 steps in total and seven interval sets).

   The environment chooses, whenever the driver is idle, the length n >= 0 of
   the next call or (after at least one step) a rebuild.  One observer with an
   arbitrary interval iv # 0; what is recorded of its calls: how often step 0
   was observed, the last step it was called at, how many calls were made
   although the step was not due, how many due steps were skipped.

   Checked with
     apalache-mc check --init=IndInit --inv=IndInv --length=0 DriverInd.tla
     apalache-mc check --init=IndInv  --inv=IndInv --length=1 DriverInd.tla
     apalache-mc check --init=IndInv  --inv=Claims --length=0 DriverInd.tla                            *)
EXTENDS Integers

VARIABLES
    \* @type: Str;
    pc,
    \* @type: Int;
    stepCount,
    \* @type: Int;
    maxSteps,
    \* @type: Bool;
    started,
    \* @type: Bool;
    hasLog,
    \* @type: Int;
    iv,
    \* @type: Int;
    header,
    \* @type: Int;
    zeroObs,
    \* @type: Int;
    lastObs,
    \* @type: Int;
    performed,
    \* @type: Int;
    requested

Due(s) == (iv > 0 /\ s % iv = 0) \/ (iv < 0 /\ s = -iv)

IndInit == /\ pc = "idle" /\ stepCount = 0 /\ maxSteps = 0 /\ started = FALSE /\ hasLog \in BOOLEAN
           /\ iv \in Int /\ iv # 0
           /\ header = 0 /\ zeroObs = 0 /\ lastObs = -1 /\ performed = 0 /\ requested = 0

\* irun(n): on the very first call of a fresh simulation write the header and call the observers for step 0
Begin(n) == /\ pc = "idle" /\ n >= 0
            /\ maxSteps' = stepCount + n /\ requested' = requested + n
            /\ IF stepCount = 0 /\ ~started
               THEN /\ header' = IF hasLog THEN header + 1 ELSE header
                    /\ zeroObs' = IF Due(0) THEN zeroObs + 1 ELSE zeroObs
                    /\ lastObs' = IF Due(0) THEN 0 ELSE lastObs
                    /\ started' = TRUE
               ELSE UNCHANGED <<header, zeroObs, lastObs, started>>
            /\ pc' = "running"
            /\ UNCHANGED <<stepCount, performed, hasLog, iv>>
Rebuild == /\ pc = "idle" /\ stepCount > 0
           /\ maxSteps' = 0 /\ started' = FALSE
           /\ UNCHANGED <<pc, stepCount, hasLog, iv, header, zeroObs, lastObs, performed, requested>>
StepOnce == /\ pc = "running" /\ stepCount < maxSteps
            /\ stepCount' = stepCount + 1 /\ performed' = performed + 1
            /\ lastObs' = IF Due(stepCount + 1) THEN stepCount + 1 ELSE lastObs
            /\ UNCHANGED <<pc, maxSteps, started, hasLog, iv, header, zeroObs, requested>>
End ==      /\ pc = "running" /\ stepCount >= maxSteps
            /\ pc' = "idle"
            /\ UNCHANGED <<stepCount, maxSteps, started, hasLog, iv, header, zeroObs, lastObs, performed, requested>>
Next == (\E n \in Nat : Begin(n)) \/ Rebuild \/ StepOnce \/ End

\* has the simulation ever begun a call?  (a fresh object that has not: nothing written, nothing observed)
Begun == started \/ stepCount > 0
IndInv ==
    /\ pc \in {"idle", "running"} /\ stepCount \in Nat /\ maxSteps \in Nat /\ started \in BOOLEAN /\ hasLog \in BOOLEAN
    /\ iv \in Int /\ iv # 0 /\ header \in Nat /\ zeroObs \in Nat /\ lastObs \in Int /\ performed \in Nat /\ requested \in Nat
    /\ performed = stepCount
    /\ pc = "idle" => stepCount = requested
    /\ pc = "running" => (maxSteps = requested /\ stepCount <= maxSteps /\ Begun)
    /\ header = (IF hasLog /\ Begun THEN 1 ELSE 0)                        \* header exactly once, before anything else
    /\ zeroObs = (IF Begun /\ iv > 0 THEN 1 ELSE 0)                       \* step 0 observed exactly once (a one-shot observer is never due at 0)
    /\ lastObs <= stepCount /\ lastObs >= -1
    /\ (lastObs >= 0) => Due(lastObs)                                     \* never called at a step that is not due
    \* no due step since the last call was skipped (quantifier-free: fewer than iv steps since the last multiple;
    \* the one-shot step either still ahead or the last one observed)
    /\ ~Begun => lastObs = -1
    /\ (iv > 0 /\ Begun) => (lastObs >= 0 /\ stepCount - lastObs < iv)
    /\ iv < 0 => ((lastObs = -1 /\ stepCount < -iv) \/ (lastObs = -iv /\ stepCount >= -iv))

\* what C15 promises, on counters
Claims == /\ pc = "idle" => (performed = requested /\ stepCount = requested)       \* exactly the requested number of steps
          /\ header <= 1 /\ zeroObs <= 1
          /\ (Begun /\ Due(stepCount)) => lastObs = stepCount                     \* the current step, if due, has been observed
=============================================================================
