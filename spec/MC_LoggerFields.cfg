SPECIFICATION Spec
INVARIANT LOG_KeysUnique
INVARIANT LOG_RemovedAreGone
INVARIANT LOG_FunctionalAgrees
PROPERTY LOG_ReplaceKeepsPosition
INVARIANT EmitAll
