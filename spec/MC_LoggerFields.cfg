SPECIFICATION Spec
INVARIANT LOG_KeysUnique
INVARIANT LOG_RemovedAreGone
INVARIANT LOG_FunctionalAgrees
INVARIANT LOG_StressColumns
PROPERTY LOG_ReplaceKeepsPosition
INVARIANT EmitAll
