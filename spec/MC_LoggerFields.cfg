SPECIFICATION Spec
INVARIANT LOG_KeysUnique
INVARIANT LOG_RemovedAreGone
INVARIANT LOG_FunctionalAgrees
INVARIANT LOG_StressColumns
PROPERTY LOG_ReplaceKeepsPosition
PROPERTY LOG_SetKeepsPositions
INVARIANT LOG_SetComplete
INVARIANT EmitAll
