------------------------ MODULE Determinism_Trace ------------------------
(* Trace validation for C06.  TRACE_FILE: JSON array of experiments
     {driver, table, A: run, B: run, C: run}   with   run = {seed, used, toks: [..], glob: n, draws: n}
   A and B were built with the same seed (with the global generators re-seeded
   and advanced differently in between), C with another seed.  toks is one
   token per step (interned digest of positions / cell / numbers / momenta /
   move history / log bytes).  One line is printed per rejected experiment. *)
EXTENDS Integers, Sequences, FiniteSets, TLC, Json, IOUtils

Exps == JsonDeserialize(IOEnv.TRACE_FILE)
VARIABLES i
Judge(e) ==
    LET f1 == IF e.A.toks # e.B.toks THEN {"same-seed-differs"} ELSE {}
        f2 == IF e.C.toks = e.A.toks /\ e.A.draws > 0 THEN {"different-seed-same"} ELSE {}
        f3 == IF e.A.glob + e.B.glob + e.C.glob > 0 THEN {"global-generator-used"} ELSE {}
        f4 == IF e.A.used # e.A.seed \/ e.B.used # e.B.seed \/ e.C.used # e.C.seed THEN {"seed-not-honoured"} ELSE {}
        f5 == IF e.A.draws = 0 THEN {"no-draw-from-own-generator"} ELSE {}
    IN f1 \cup f2 \cup f3 \cup f4 \cup f5
Init == i = 0
Next == /\ i < Len(Exps) /\ i' = i + 1
        /\ LET bad == Judge(Exps[i + 1]) IN
             bad # {} => PrintT("@@" \o ToJson([idx |-> i + 1, what |-> bad]))
Spec == Init /\ [][Next]_i
Consumed == TLCGet("stats").diameter - 1 = Len(Exps)
=============================================================================
