------------------------------ MODULE FBMC ------------------------------
(* C13 -- one force-bias step (ForceBias.step, mc/fbmc.py) on an exact lattice.

   Every Cartesian coordinate has gamma = F delta / (2 kT).  The published
   (Bal-Neyts) acceptance function of the dimensionless displacement zeta is

        P(zeta; gamma) = (e^gamma - e^(gamma (2 zeta - 1))) / (e^gamma - e^-gamma)     zeta > 0
                         (e^(gamma (2 zeta + 1)) - e^-gamma) / (e^gamma - e^-gamma)    zeta < 0
        (gamma = 0: P = 1)

   On the lattice  gamma = k ln 2  (k even),  zeta = j / 4,  u = (2 r + 1) / 32
   every exponential is a power of two, so "accept iff P > u" is an integer
   inequality: with the common scaling 2^|k|,
        P = Num / Den,   Num, Den integers,   accept <=> 32 Num sgn(Den) > (2 r + 1) |Den|.

   The step is the rejection loop: every not-yet-converged coordinate draws a
   fresh (zeta, u) pair per round; the configuration is advanced exactly once,
   when all coordinates have converged.                                     *)
EXTENDS Integers, Sequences, FiniteSets, TLC, Json, IOUtils, SequencesExt

OutFile == IF "FB_OUT" \in DOMAIN IOEnv THEN IOEnv.FB_OUT ELSE ""

KVals == {0, 2, -2, 4, -4, 6, -6}
JVals == {-4, -3, -2, -1, 1, 2, 3, 4}       \* zeta = j/4, never 0
RVals == 0..15                               \* u = (2r+1)/32

RECURSIVE Pow2(_)
Pow2(n) == IF n = 0 THEN 1 ELSE 2 * Pow2(n - 1)
Abs(x) == IF x < 0 THEN -x ELSE x
Sgn(x) == IF x > 0 THEN 1 ELSE IF x < 0 THEN -1 ELSE 0

\* 2^(e) scaled by 2^|k|:  all exponents that occur are >= -|k|
Sc(k, e) == Pow2(e + Abs(k))
\* exponent of e^(gamma * x) in units of ln 2, for x = (2 zeta -+ 1) = (j -+ 2)/2 :  k (j -+ 2) / 2  (k is even)
Ex(k, j, pm) == (k \div 2) * (j + pm)

Num(k, j) == IF k = 0 THEN 1
             ELSE IF j > 0 THEN Sc(k, k) - Sc(k, Ex(k, j, -2))
             ELSE Sc(k, Ex(k, j, 2)) - Sc(k, -k)
Den(k) == IF k = 0 THEN 1 ELSE Sc(k, k) - Sc(k, -k)

Accepts(k, j, r) == 32 * Num(k, j) * Sgn(Den(k)) > (2 * r + 1) * Abs(Den(k))

(* ---- the rejection loop for a system of NC coordinates ------------------- *)
NC == 2
VARIABLES gam, zeta, conv, rounds, advanced

vars == <<gam, zeta, conv, rounds, advanced>>

Init == /\ gam \in [1..NC -> KVals]
        /\ zeta = [i \in 1..NC |-> 0] /\ conv = [i \in 1..NC |-> FALSE]
        /\ rounds = 0 /\ advanced = 0

\* one round: every coordinate that has not converged draws (zeta, u); converged ones keep their zeta
Round == /\ advanced = 0 /\ \E i \in 1..NC : ~conv[i]
         /\ rounds < 3
         /\ \E draw \in [1..NC -> {-3, -1, 1, 3} \X {0, 5, 10, 15}] :      \* a sub-lattice keeps the process small; the table below covers all of it
               /\ zeta' = [i \in 1..NC |-> IF conv[i] THEN zeta[i] ELSE draw[i][1]]
               /\ conv' = [i \in 1..NC |-> conv[i] \/ Accepts(gam[i], draw[i][1], draw[i][2])]
         /\ rounds' = rounds + 1
         /\ UNCHANGED <<gam, advanced>>

\* the displacement zeta * delta * (m_min/m)^p is applied once
Advance == /\ advanced = 0 /\ \A i \in 1..NC : conv[i]
           /\ advanced' = 1
           /\ UNCHANGED <<gam, zeta, conv, rounds>>

Next == Round \/ Advance
Spec == Init /\ [][Next]_vars

(* ---- properties ------------------------------------------------------------ *)
C13_Bounded == \A i \in 1..NC : Abs(zeta[i]) <= 4                 \* |zeta| <= 1
C13_OnceOnly == advanced <= 1
C13_AdvanceNeedsAll == advanced = 1 => \A i \in 1..NC : conv[i]
C13_ConvergedKeepsZeta == [][\A i \in 1..NC : conv[i] => zeta'[i] = zeta[i]]_vars
\* P is a probability, P = 1 at gamma = 0 (uniform law)
C13_PIsProbability == \A k \in KVals, j \in JVals :
        /\ Num(k, j) * Sgn(Den(k)) >= 0 /\ Num(k, j) * Sgn(Den(k)) <= Abs(Den(k))
        /\ (k = 0 => Num(k, j) = Den(k))
\* displacement along the force is favoured, increasingly with |gamma|
C13_FavoursForce == \A k \in {2, 4, 6}, j \in {1, 2, 3} :          \* (P vanishes at zeta = +-1)
        /\ Num(k, j) * Abs(Den(k)) > Num(k, -j) * Abs(Den(k))                                   \* P(zeta) > P(-zeta) for gamma > 0
        /\ Num(-k, -j) * Sgn(Den(-k)) * Abs(Den(k)) = Num(k, j) * Abs(Den(-k))                  \* mirror symmetry gamma -> -gamma
C13_IncreasinglyFavoured == \A j \in {1, 2, 3} :
        \* P(-zeta; gamma) decreases with gamma: cross-multiplied, k = 2 < 4 < 6
        /\ Num(2, -j) * Den(4) >= Num(4, -j) * Den(2)
        /\ Num(4, -j) * Den(6) >= Num(6, -j) * Den(4)
\* some draw always converges: the loop can terminate from every state (positive acceptance mass)
C13_CanAlwaysConverge == \A k \in KVals : \E j \in JVals, r \in RVals : Accepts(k, j, r)

Table == {[k |-> k, j |-> j, r |-> r, accept |-> Accepts(k, j, r), num |-> Num(k, j) * Sgn(Den(k)), den |-> Abs(Den(k))] : k \in KVals, j \in JVals, r \in RVals}
Export ==
    IF TLCGet("stats").distinct < 0 \/ OutFile = "" THEN TRUE
    ELSE ndJsonSerialize(OutFile, SetToSeq(Table))
=============================================================================
