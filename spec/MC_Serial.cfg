SPECIFICATION Spec
INVARIANT C08_SameObject
INVARIANT C08_SameDict
INVARIANT C08_Registered
POSTCONDITION Export
