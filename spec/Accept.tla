----------------------------- MODULE Accept -----------------------------
(* C02 -- the acceptance rules of mc/criteria.py on an exact lattice.

   TLA+ has integers only, so the textbook rule  u < min(1, A)  is specified
   where it is *exactly* an integer comparison: every energy-like quantity is
   an integer multiple of  kT ln 2  (so Boltzmann factors are powers of two),
   volume ratios and the ideal-gas prefactors are powers of two, and the
   uniform draw is  u = 2^-(j + 1/2).  Then

        u < min(1, A)   <=>   -(2j + 1) < 2 * Min(0, log2 A)

   with log2 A an integer:

     canonical      log2 A = -e
     hamiltonian    log2 A = -(e + k)                       k: kinetic-energy change
     isobaric       log2 A = -(e + pdv) + (N + 1) m         V'/V = 2^m, P dV = pdv kT ln 2
     isotension     log2 A = -(e + pdv + w) + (N + 1) m     w: stress work V0 tr((S - P 1) strain)
     insertion      log2 A = a + (mu - e)                   V / (Lambda^3 (N + 1)) = 2^a
     deletion       log2 A = -a + (-mu - e)                 V / (Lambda^3 N) = 2^a

   The half-integer exponent of u keeps every lattice point at least a factor
   sqrt(2) away from the decision boundary, so the floating-point evaluation
   in the code must agree with the exact rule (no rounding excuse), including
   for |e| far beyond 709 where math.exp overflows / underflows.

   The second part (SetThenTrial) is the little state machine "parameters set
   on the simulation object apply to the next trial".                      *)
EXTENDS Integers, Sequences, FiniteSets, TLC, Json, IOUtils, SequencesExt

OutFile == IF "ACC_OUT" \in DOMAIN IOEnv THEN IOEnv.ACC_OUT ELSE ""
Dense == IF "ACC_DENSE" \in DOMAIN IOEnv THEN IOEnv.ACC_DENSE = "1" ELSE FALSE

Min2(a, b) == IF a < b THEN a ELSE b

Ensembles == {"canonical", "hamiltonian", "isobaric", "isotension", "insertion", "deletion"}

\* energies (units kT ln 2): around zero, around the exp overflow threshold (709.78/ln 2 = 1024), far beyond
EVals == IF Dense THEN {0, 1, -1, 2, -2, 3, -3, 5, -5, 60, -60, 709, -709, 1023, -1023, 1024, -1024, 1025, -1025, 1100, -1100, 1000000, -1000000}
         ELSE {0, 1, -1, 2, -5, 709, -709, 1025, -1025, 1100, -1100, 1000000, -1000000}
KVals == IF Dense THEN {0, 1, -1, 3, -1100, 1100, 1000000, -1000000} ELSE {0, 1, -1, -1100, 1000000}
MVals == IF Dense THEN {0, 1, -1, 2, -2, 3} ELSE {0, 1, -1, 2}             \* log2 of the volume ratio
PdvVals == IF Dense THEN {0, 1, 2, 5, 1100} ELSE {0, 1, 5, 1100}          \* |P dV| / kT ln 2 (sign follows dV)
WVals == IF Dense THEN {0, 1, -1, 4, -1100} ELSE {0, 1, -1, -1100}        \* stress work
MuVals == IF Dense THEN {0, 1, -1, 7, -7, 1100, -1100} ELSE {0, 1, -7, 1100}
AVals == IF Dense THEN {0, 1, -1, 10, -10} ELSE {0, 1, -10}                \* log2 of the ideal-gas prefactor
NVals == IF Dense THEN 0..3 ELSE {0, 1, 3}
JVals == IF Dense THEN {0, 1, 2, 5, 60, 1000} ELSE {0, 1, 5, 60, 1000}     \* u = 2^-(j+1/2)
TVals == {1, 2}                                                             \* temperature = TVal * T0 (energies scale with it)

Sign(x) == IF x > 0 THEN 1 ELSE IF x < 0 THEN -1 ELSE 0

Points ==
       {[ens |-> "canonical", e |-> e, k |-> 0, m |-> 0, pdv |-> 0, w |-> 0, mu |-> 0, a |-> 0, n |-> 1, j |-> j, t |-> t]
            : e \in EVals, j \in JVals, t \in TVals}
  \cup {[ens |-> "hamiltonian", e |-> e, k |-> k, m |-> 0, pdv |-> 0, w |-> 0, mu |-> 0, a |-> 0, n |-> 1, j |-> j, t |-> 1]
            : e \in EVals, k \in KVals, j \in JVals}
  \cup {[ens |-> "isobaric", e |-> e, k |-> 0, m |-> m, pdv |-> Sign(m) * p, w |-> 0, mu |-> 0, a |-> 0, n |-> n, j |-> j, t |-> 1]
            : e \in EVals, m \in MVals, p \in PdvVals, n \in NVals, j \in JVals}
  \* compensated extremes: a large system, where the enthalpy term and the (N+1) ln(V'/V) term are each far
  \* beyond the floating-point exponent range but cancel to |log2 A| <= 1 (A must not be computed factor by factor)
  \cup {[ens |-> "isobaric", e |-> s * (2048 + d), k |-> 0, m |-> s, pdv |-> 0, w |-> 0, mu |-> 0, a |-> 0, n |-> 2047, j |-> j, t |-> t]
            : s \in {1, -1}, d \in {-1, 0, 1}, j \in JVals, t \in TVals}
  \cup {[ens |-> "isotension", e |-> e, k |-> 0, m |-> m, pdv |-> Sign(m) * p, w |-> IF m = 0 THEN 0 ELSE w, mu |-> 0, a |-> 0, n |-> n, j |-> j, t |-> 1]
            : e \in {0, 1, -5, 1100, -1100}, m \in MVals, p \in {0, 1, 5}, w \in WVals, n \in {0, 2}, j \in JVals}
  \cup {[ens |-> "insertion", e |-> e, k |-> 0, m |-> 0, pdv |-> 0, w |-> 0, mu |-> mu, a |-> a, n |-> n, j |-> j, t |-> t]
            : e \in EVals, mu \in MuVals, a \in AVals, n \in NVals, j \in JVals, t \in TVals}
  \cup {[ens |-> "deletion", e |-> e, k |-> 0, m |-> 0, pdv |-> 0, w |-> 0, mu |-> mu, a |-> a, n |-> n + 1, j |-> j, t |-> t]
            : e \in EVals, mu \in MuVals, a \in AVals, n \in NVals, j \in JVals, t \in TVals}

LogA(p) ==
    CASE p.ens = "canonical"   -> -p.e
      [] p.ens = "hamiltonian" -> -(p.e + p.k)
      [] p.ens = "isobaric"    -> -(p.e + p.pdv) + (p.n + 1) * p.m
      [] p.ens = "isotension"  -> -(p.e + p.pdv + p.w) + (p.n + 1) * p.m
      [] p.ens = "insertion"   -> p.a + (p.mu - p.e)
      [] p.ens = "deletion"    -> -p.a + (-p.mu - p.e)

Decide(p) == -(2 * p.j + 1) < 2 * Min2(0, LogA(p))

(* ---- SetThenTrial ------------------------------------------------------- *)
VARIABLES pt,        \* the lattice point to be realised
          installed, \* parameters currently installed on the simulation object: "stale" (another point's) or "fresh"
          phase, verdict

vars == <<pt, installed, phase, verdict>>

Init == /\ pt \in Points
        /\ installed = "stale" /\ phase = "built" /\ verdict = FALSE

\* the user assigns temperature / pressure / stress / chemical potential / particle count / volume
SetParams == /\ phase = "built"
             /\ installed' = "fresh" /\ phase' = "set"
             /\ UNCHANGED <<pt, verdict>>

\* the trial uses what is installed NOW (the context is read at evaluation time)
Trial == /\ phase = "set" /\ installed = "fresh"
         /\ verdict' = Decide(pt) /\ phase' = "decided"
         /\ UNCHANGED <<pt, installed>>

Next == SetParams \/ Trial
Spec == Init /\ [][Next]_vars

(* ---- theorems of the rule (checked by TLC on the whole lattice) --------- *)
C02_FavourableAlwaysAccepted == \A p \in {pt} : LogA(p) >= 0 => Decide(p)
C02_UsesFreshParams == phase = "decided" => verdict = Decide(pt)
C02_HydrostaticIsIsobaric ==
    pt.ens = "isotension" /\ pt.w = 0 => Decide(pt) = Decide([pt EXCEPT !.ens = "isobaric"])
C02_MonotoneInEnergy ==      \* a lower energy is never less acceptable
    \A e2 \in EVals : e2 <= pt.e => (Decide(pt) => Decide([pt EXCEPT !.e = e2]))
C02_NeverAboveOneMatters ==  \* min(1, A): the verdict for A >= 1 does not depend on A
    \A e2 \in EVals : (LogA(pt) >= 0 /\ LogA([pt EXCEPT !.e = e2]) >= 0) => Decide(pt) = Decide([pt EXCEPT !.e = e2])

Export ==
    IF TLCGet("stats").distinct < 0 \/ OutFile = "" THEN TRUE
    ELSE ndJsonSerialize(OutFile, SetToSeq({[p |-> p, loga |-> LogA(p), accept |-> Decide(p)] : p \in Points}))
=============================================================================
