------------------------------ MODULE Driver ------------------------------
(* C15 -- observers fire on schedule; splitting a run does not change it
   (Driver.irun / call_observers, mc/driver.py; MonteCarlo.run / srun).

   A *plan* is a sequence of run calls <<length, entry point>>; the machine
   executes it call by call, step by step.  Observers are identified by their
   interval: positive n -> called once at step 0 and after every step that
   is a multiple of n; negative -n -> called exactly once, after step n.
   The default logger (if the driver was given a log file) writes its header
   once, before its first row.

   A plan may also contain "rebuild": between two calls the simulation is
   serialized, rebuilt from the dictionary (to_dict -> from_dict, the restart
   path) and the same files and observers are attached to the new object.  The
   rebuilt object is fresh (max_steps = 0, no "initial observers called" flag)
   but knows its step count: the next call still performs exactly the requested
   number of steps and step 0 is not observed again.                       *)
EXTENDS Integers, Sequences, FiniteSets, TLC, Json, IOUtils, SequencesExt

OutFile == IF "DRV_OUT" \in DOMAIN IOEnv THEN IOEnv.DRV_OUT ELSE ""
MaxTotal == IF "DRV_N" \in DOMAIN IOEnv THEN (IF IOEnv.DRV_N = "6" THEN 6 ELSE 4) ELSE 4

Entries == {"run", "srun", "irun"}
ObsSets == { {1}, {2}, {3, 1}, {-1, 2}, {-2, 1}, {-5, 3}, {2, -2, -3} }

RECURSIVE Plans(_, _)
\* all plans with at most k calls whose lengths sum to at most total (zero-length calls included)
Plans(k, total) ==
    IF k = 0 THEN {<<>>}
    ELSE {<<>>} \cup UNION {{<<[n |-> len, entry |-> e]>> \o rest : rest \in Plans(k - 1, total - len)}
                            : <<len, e>> \in (0..total) \X Entries}

RECURSIVE Total(_)
Total(p) == IF Len(p) = 0 THEN 0 ELSE Head(p).n + Total(Tail(p))

\* plans with one rebuild inserted after a prefix that has performed at least one step
WithRebuild(p) == {SubSeq(p, 1, k) \o <<[n |-> 0, entry |-> "rebuild"]>> \o SubSeq(p, k + 1, Len(p)) :
                     k \in {j \in 1..(Len(p) - 1) : Total(SubSeq(p, 1, j)) > 0}}
AllPlans == LET base == {q \in Plans(3, MaxTotal) : Len(q) >= 1}
            IN base \cup UNION {WithRebuild(q) : q \in base}

Due(interval, s) == \/ (interval > 0 /\ s % interval = 0)
                    \/ (interval < 0 /\ s = -interval)

\* the schedule: which steps an observer is called at, in a simulation that has performed n steps
Expected(interval, n) == SelectSeq([i \in 1..(n + 1) |-> i - 1], LAMBDA s : Due(interval, s))

VARIABLES plan, obs, pc, stepCount, maxSteps, started, header, calls, rowsBeforeHeader, performed, requested, hasLog

vars == <<plan, obs, pc, stepCount, maxSteps, started, header, calls, rowsBeforeHeader, performed, requested, hasLog>>

Init == /\ plan \in AllPlans
        /\ obs \in ObsSets /\ hasLog \in BOOLEAN /\ requested = 0
        /\ pc = "idle" /\ stepCount = 0 /\ maxSteps = 0 /\ started = FALSE
        /\ header = 0 /\ rowsBeforeHeader = FALSE /\ performed = 0
        /\ calls = [i \in obs |-> <<>>]

CallObservers(s, c) == [i \in obs |-> IF Due(i, s) THEN Append(c[i], s) ELSE c[i]]

\* irun(n): on the very first call of a fresh simulation write the header and call the observers for step 0
Begin ==
    /\ pc = "idle" /\ Len(plan) > 0 /\ Head(plan).entry # "rebuild"
    /\ maxSteps' = stepCount + Head(plan).n
    /\ requested' = requested + Head(plan).n
    /\ IF stepCount = 0 /\ ~started
       THEN /\ header' = IF hasLog THEN header + 1 ELSE header
            /\ rowsBeforeHeader' = (rowsBeforeHeader \/ \E i \in obs : Len(calls[i]) > 0)
            /\ calls' = CallObservers(0, calls)
            /\ started' = TRUE
       ELSE UNCHANGED <<header, rowsBeforeHeader, calls, started>>
    /\ pc' = "running"
    /\ UNCHANGED <<plan, obs, stepCount, performed, hasLog>>

\* to_dict -> from_dict: a new object with the old step count
Rebuild ==
    /\ pc = "idle" /\ Len(plan) > 0 /\ Head(plan).entry = "rebuild"
    /\ maxSteps' = 0 /\ started' = FALSE
    /\ plan' = Tail(plan)
    /\ UNCHANGED <<obs, pc, stepCount, header, calls, rowsBeforeHeader, performed, requested, hasLog>>

\* one step, then the observers that are due
StepOnce ==
    /\ pc = "running" /\ stepCount < maxSteps
    /\ stepCount' = stepCount + 1
    /\ performed' = performed + 1
    /\ calls' = CallObservers(stepCount + 1, calls)
    /\ UNCHANGED <<plan, obs, pc, maxSteps, started, header, rowsBeforeHeader, requested, hasLog>>

End ==
    /\ pc = "running" /\ stepCount >= maxSteps
    /\ plan' = Tail(plan) /\ pc' = "idle"
    /\ UNCHANGED <<obs, stepCount, maxSteps, started, header, calls, rowsBeforeHeader, performed, requested, hasLog>>

Next == Begin \/ StepOnce \/ End \/ Rebuild
Spec == Init /\ [][Next]_vars

Quiescent == pc = "idle" /\ Len(plan) = 0

(* ---- properties ------------------------------------------------------------ *)
C15_Schedule   == Quiescent => \A i \in obs : calls[i] = Expected(i, stepCount)
C15_HeaderOnce == Quiescent => (header = (IF hasLog THEN 1 ELSE 0) /\ ~rowsBeforeHeader)
C15_ExactSteps == (pc = "idle") => (performed = requested /\ stepCount = requested)   \* every call performs exactly the requested number
C15_NeverTwice == \A i \in obs : \A a, b \in 1..Len(calls[i]) : a # b => calls[i][a] # calls[i][b]
C15_SplitInvariant ==      \* the outcome depends on the total only, not on how it was cut
    Quiescent => \A i \in obs : calls[i] = Expected(i, performed)

(* ---- the counter abstraction DriverInd.tla (inductive invariant discharged by Apalache for unbounded call lengths,
        numbers of calls / rebuilds and intervals) is an abstraction of THIS machine, observer by observer ------------ *)
DI(i) == INSTANCE DriverInd WITH
            iv <- i,
            zeroObs <- Cardinality({k \in 1..Len(calls[i]) : calls[i][k] = 0}),
            lastObs <- IF Len(calls[i]) = 0 THEN -1 ELSE calls[i][Len(calls[i])]
C15_AbstractionInv == \A i \in obs : DI(i)!IndInv
C15_AbstractionStep == [][\A i \in obs : \/ (Len(plan) > 0 /\ DI(i)!Begin(Head(plan).n))
                                          \/ DI(i)!Rebuild \/ DI(i)!StepOnce \/ DI(i)!End]_vars

(* ---- liveness: every plan is eventually executed completely (no call spins or stalls) ------------- *)
FairSpec == Spec /\ WF_vars(Next)
C15_PlanCompletes == <>Quiescent

(* ---- export ------------------------------------------------------------------ *)
Cases == {[plan |-> p, obs |-> SetToSortSeq(o, <), total |-> Total(p), log |-> b,
           expected |-> [i \in 1..Cardinality(o) |-> Expected(SetToSortSeq(o, <)[i], Total(p))]]
          : p \in AllPlans, o \in ObsSets, b \in BOOLEAN}
Export ==
    IF TLCGet("stats").distinct < 0 \/ OutFile = "" THEN TRUE
    ELSE ndJsonSerialize(OutFile, SetToSeq(Cases))
=============================================================================
