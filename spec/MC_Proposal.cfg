SPECIFICATION Spec
INVARIANT C10_MaskedOutIsIdentity
INVARIANT C10_UnmaskedIsRaw
POSTCONDITION Export
