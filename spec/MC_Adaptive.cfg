SPECIFICATION Spec
INVARIANT C18_InRange
INVARIANT C18_MaxAtZero
INVARIANT C18_MidAtRef
INVARIANT C18_NearMinAtLarge
INVARIANT C18_Monotone
INVARIANT C18_NoHistory
POSTCONDITION Export
