SPECIFICATION Spec
INVARIANT OBS_StdNeverClosed
PROPERTY OBS_SetFileClosesPrevious
PROPERTY OBS_NeverLinkClosed
PROPERTY OBS_ManagerClosesRegistered
