---------------------------- MODULE Adaptive ----------------------------
(* C18 -- AdaptiveForceBias.update_delta (mc/fbmc.py) on an exact lattice.

   With the committee variance an integer multiple n of the reference
   variance the two update functions are rational:

        tanh:  1 - tanh(n atanh(1/2)) = 2 / (3^n + 1)
        exp :  exp(-n ln 2)           = 1 / 2^n

   so   delta = min + (max - min) f(n)  is the rational  Num / Den  below.
   The state machine lets the user re-assign the bounds and lets the
   committee variance change between updates: the adapted delta is a function
   of the CURRENT bounds and the CURRENT variance only (no history).        *)
EXTENDS Integers, Sequences, FiniteSets, TLC, Json, IOUtils, SequencesExt

OutFile == IF "AD_OUT" \in DOMAIN IOEnv THEN IOEnv.AD_OUT ELSE ""
MaxLen == IF "AD_LEN" \in DOMAIN IOEnv THEN (IF IOEnv.AD_LEN = "4" THEN 4 ELSE 3) ELSE 3

RECURSIVE Pow(_, _)
Pow(b, n) == IF n = 0 THEN 1 ELSE b * Pow(b, n - 1)

Fns == {"tanh", "exp"}
NMax(f) == IF f = "tanh" THEN 18 ELSE 30          \* 3^18 and 2^30 fit 32-bit integers

\* f(n) = FNum / FDen
FNum(f, n) == IF f = "tanh" THEN 2 ELSE 1
FDen(f, n) == IF f = "tanh" THEN Pow(3, n) + 1 ELSE Pow(2, n)

\* delta = Num / Den   (min, max small integers: units of 0.01 Angstrom)
Den(f, n) == FDen(f, n)
Num(lo, hi, f, n) == lo * FDen(f, n) + (hi - lo) * FNum(f, n)

Bounds == {<<1, 3>>, <<2, 2>>, <<0, 5>>, <<4, 5>>}
NVals == {0, 1, 2, 5, 18}
NoData == -1                                       \* no committee data: the reference variance is used

\* ref: the reference variance as a multiple of the constructor's (the attribute can be re-assigned, like the bounds);
\* n stays the committee variance in units of the CONSTRUCTOR's reference, so the argument of the update function is n / ref
RefVals == {1, 2}
VARIABLES fn, lo, hi, n, ref, dnum, dden, hist

vars == <<fn, lo, hi, n, ref, dnum, dden, hist>>

Init == /\ fn \in Fns
        /\ \E b \in Bounds : lo = b[1] /\ hi = b[2]
        /\ n = NoData /\ ref = 1
        /\ dnum = lo + hi /\ dden = 2               \* the constructor starts at the midpoint
        /\ hist = <<>>

SetVariance(v) == /\ n' = v /\ hist' = Append(hist, <<"var", v, 0>>)
                  /\ UNCHANGED <<fn, lo, hi, ref, dnum, dden>>

SetRef(r) == /\ ref' = r /\ hist' = Append(hist, <<"ref", r, 0>>)
             /\ UNCHANGED <<fn, lo, hi, n, dnum, dden>>

SetBounds(b) == /\ lo' = b[1] /\ hi' = b[2] /\ hist' = Append(hist, <<"bounds", b[1], b[2]>>)
                /\ UNCHANGED <<fn, n, ref, dnum, dden>>

\* the argument of the update function, in units of the CURRENT reference; without data: the current reference itself.
\* (the rational form needs an integer: an update at a ratio off the lattice is not taken in this model; the replay checks
\* the range there)
OnLattice(v, r) == v = NoData \/ v % r = 0
EffR(v, r) == IF v = NoData THEN 1 ELSE v \div r
Eff(v) == EffR(v, ref)

UpdateDelta == /\ OnLattice(n, ref)
               /\ dnum' = Num(lo, hi, fn, Eff(n)) /\ dden' = Den(fn, Eff(n))
               /\ hist' = Append(hist, <<"update", 0, 0>>)
               /\ UNCHANGED <<fn, lo, hi, n, ref>>

Next == /\ Len(hist) < MaxLen
        /\ \/ \E v \in NVals \cup {NoData} : SetVariance(v)
           \/ \E b \in Bounds : SetBounds(b)
           \/ \E r \in RefVals : SetRef(r)
           \/ UpdateDelta

Spec == Init /\ [][Next]_vars

Updated == Len(hist) > 0 /\ hist[Len(hist)][1] = "update"

(* ---- properties (each an integer inequality) ---------------------------- *)
C18_InRange    == Updated => (lo * dden <= dnum /\ dnum <= hi * dden)
C18_MaxAtZero  == (Updated /\ n = 0) => dnum = hi * dden
C18_MidAtRef   == (Updated /\ Eff(n) = 1) => 2 * dnum = (lo + hi) * dden     \* n = the reference AS LAST ASSIGNED (or no data)
C18_NearMinAtLarge ==      \* f(NMax) <= 1e-8 for tanh (n = 18), <= 1e-9 for exp (n = 30)
    /\ 2 * 100000000 <= FDen("tanh", 18)
    /\ 1000000000 <= FDen("exp", 30)
C18_Monotone   ==          \* f never increases with n  (FNum constant, FDen increasing)
    \A f \in Fns : \A k \in 0..(NMax(f) - 1) : FDen(f, k) <= FDen(f, k + 1)
C18_NoHistory  == Updated => (dnum = Num(lo, hi, fn, Eff(n)) /\ dden = Den(fn, Eff(n)))

(* ---- export: every action sequence up to MaxLen with the expected delta after each update --- *)
Symbols == {<<"var", v, 0>> : v \in NVals \cup {NoData}} \cup {<<"bounds", b[1], b[2]>> : b \in Bounds} \cup {<<"update", 0, 0>>} \cup {<<"ref", r, 0>> : r \in RefVals}

RECURSIVE SeqsUpTo(_)
SeqsUpTo(k) == IF k = 0 THEN {<<>>} ELSE SeqsUpTo(k - 1) \cup {Append(q, x) : q \in {r \in SeqsUpTo(k - 1) : Len(r) = k - 1}, x \in Symbols}

RECURSIVE Walk(_, _, _, _, _, _, _)
\* expected <<num, den>> after each "update" in the sequence (<<0, 0>>: off the lattice, only the range is owed)
Walk(f, l, h, v, r, q, acc) ==
    IF Len(q) = 0 THEN acc
    ELSE LET x == Head(q)
         IN CASE x[1] = "var"    -> Walk(f, l, h, x[2], r, Tail(q), acc)
              [] x[1] = "bounds" -> Walk(f, x[2], x[3], v, r, Tail(q), acc)
              [] x[1] = "ref"    -> Walk(f, l, h, v, x[2], Tail(q), acc)
              [] OTHER           -> Walk(f, l, h, v, r, Tail(q), Append(acc, IF OnLattice(v, r) THEN <<Num(l, h, f, EffR(v, r)), Den(f, EffR(v, r))>> ELSE <<0, 0>>))

\* longer histories of one shape: committee data appear, disappear and re-appear between updates (C18_NoHistory: the
\* adapted delta is a function of the current inputs only, whatever was published or missing before)
AltVals == {NoData, 0, 2, 5}
Alternating == {<< <<"var", a, 0>>, <<"update", 0, 0>>, <<"var", b, 0>>, <<"update", 0, 0>>, <<"var", c, 0>>, <<"update", 0, 0>> >> : a \in AltVals, b \in AltVals, c \in AltVals}

Cases == {[fn |-> f, lo |-> b[1], hi |-> b[2], actions |-> q, expect |-> Walk(f, b[1], b[2], NoData, 1, q, <<>>)]
          : f \in Fns, b \in Bounds, q \in {r \in SeqsUpTo(MaxLen) : \E i \in 1..Len(r) : r[i][1] = "update"} \cup Alternating}

Curve == {[fn |-> f, n |-> k, fnum |-> FNum(f, k), fden |-> FDen(f, k)] : <<f, k>> \in UNION {{<<g, j>> : j \in 0..NMax(g)} : g \in Fns}}

Export ==
    IF TLCGet("stats").distinct < 0 \/ OutFile = "" THEN TRUE
    ELSE ndJsonSerialize(OutFile, SetToSeq({[kind |-> "curve", c |-> c] : c \in Curve}) \o SetToSeq({[kind |-> "case", c |-> c] : c \in Cases}))
=============================================================================
