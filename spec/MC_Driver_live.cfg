SPECIFICATION FairSpec
PROPERTY C15_PlanCompletes
