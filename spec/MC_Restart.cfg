SPECIFICATION Spec
INVARIANT C07_RestartIsStuttering
POSTCONDITION Export
