---------------------------- MODULE Protocol ----------------------------
(* C20 -- drivers use custom moves and criteria only through the protocol
   (protocols.py: Move = call / on_atoms_changed / on_cell_changed /
   to_dict / from_dict; Criteria = evaluate / to_dict / from_dict).

   A move table holds a USER move U with a USER criteria, and -- so that the
   atom count and the cell really change -- a shipped exchange move (grand
   canonical) or a shipped cell move (isobaric, isotension), each paired with
   a user criteria too, so every verdict is the user's.

   The machine runs trials:  Yield(entry) -> Call -> [truthy: Evaluate ->
   accepted: SaveState (+ notifications) | rejected: Revert] | [falsy:
   recorded as not attempted], and may serialize the simulation between two
   trials.  `log` is the sequence of calls the driver makes on user objects;
   the properties constrain its alphabet and order.                        *)
EXTENDS Integers, Sequences, FiniteSets, TLC, Json, IOUtils, SequencesExt

OutFile == IF "PROTO_OUT" \in DOMAIN IOEnv THEN IOEnv.PROTO_OUT ELSE ""
MaxTrials == IF "PROTO_N" \in DOMAIN IOEnv THEN (IF IOEnv.PROTO_N = "4" THEN 4 ELSE 3) ELSE 3

Drivers == {"MonteCarlo", "Canonical", "HamiltonianCanonical", "Isobaric", "Isotension", "GrandCanonical"}
\* entries of the move table per driver: "user" always; a shipped structural move where the driver has one
\* in the cell-changing ensembles the table also holds a second USER move W, scheduled under "shear": it changes the
\* SHAPE of the cell at constant volume (what a user-defined cell move of an isotension run naturally does)
\* (grand canonical: "exch" inserts a particle; "swap" is a shipped generic composite that deletes one particle and inserts
\*  another in ONE trial -- the atoms change although the particle balance of the trial is zero)
EntriesOf(d) == {"user"} \cup (IF d = "GrandCanonical" THEN {"exch", "swap"} ELSE {}) \cup (IF d \in {"Isobaric", "Isotension"} THEN {"cell", "shear"} ELSE {})
UserEntries == {"user", "shear"}
MoveOf(e) == IF e = "user" THEN "U" ELSE "W"

\* distinct user move objects in the table: the grand-canonical table holds a second user move V that is a
\* value-equal twin of U (same configuration, different object); it is never scheduled but must be notified
UserMoves(d) == IF d = "GrandCanonical" THEN <<"U", "V">> ELSE IF d \in {"Isobaric", "Isotension"} THEN <<"U", "W">> ELSE <<"U">>
CellChanging == {"cell", "shear"}
AtomChanging == {"exch", "swap"}

TrialLog(d, t) ==
    (IF t.entry \in UserEntries THEN << <<"call", MoveOf(t.entry)>> >> ELSE <<>>)
    \o (IF t.res THEN << <<"evaluate", t.entry>> >> ELSE <<>>)
    \o (IF t.acc /\ t.entry \in AtomChanging THEN [i \in 1..Len(UserMoves(d)) |-> <<"on_atoms_changed", UserMoves(d)[i]>>] ELSE <<>>)
    \o (IF t.acc /\ t.entry \in CellChanging THEN [i \in 1..Len(UserMoves(d)) |-> <<"on_cell_changed", UserMoves(d)[i]>>] ELSE <<>>)
\* to_dict of the simulation walks the table entry by entry: move, then its criteria
NShipped(d) == Cardinality(EntriesOf(d) \ UserEntries)
SerHalf(d, what) == [i \in 1..(2 * Len(UserMoves(d))) |-> IF i % 2 = 1 THEN <<what, UserMoves(d)[(i + 1) \div 2]>> ELSE <<what, "criteria">>]
                    \o [i \in 1..NShipped(d) |-> <<what, "criteria">>]
SerLog(d) == SerHalf(d, "to_dict") \o SerHalf(d, "from_dict")

Trial == [entry : {"user", "exch", "swap", "cell", "shear"}, res : BOOLEAN, acc : BOOLEAN]

VARIABLES driver, pc, cur, log, hist, trials, serialized, again

vars == <<driver, pc, cur, log, hist, trials, serialized, again>>

Init == /\ driver \in Drivers /\ pc = "idle" /\ cur = [entry |-> "user", res |-> FALSE, acc |-> FALSE]
        /\ log = <<>> /\ hist = <<>> /\ trials = 0 /\ serialized = FALSE /\ again = 0

Yield(t) == /\ pc = "idle" /\ trials < MaxTrials
            /\ t.entry \in EntriesOf(driver)
            /\ (t.entry \notin UserEntries => t.res)        \* the shipped moves of the table always succeed here
            /\ (~t.res => ~t.acc)
            /\ cur' = t /\ pc' = "yielded"
            /\ UNCHANGED <<driver, log, hist, trials, serialized>>

\* the driver calls the move; only calls on USER objects are logged
Call == /\ pc = "yielded"
        /\ log' = IF cur.entry \in UserEntries THEN Append(log, <<"call", MoveOf(cur.entry)>>) ELSE log
        /\ pc' = IF cur.res THEN "called_true" ELSE "called_false"
        /\ UNCHANGED <<driver, cur, hist, trials, serialized>>

\* a truthy result sends the trial to the entry's (user) criteria
Evaluate == /\ pc = "called_true"
            /\ log' = Append(log, <<"evaluate", cur.entry>>)
            /\ pc' = IF cur.acc THEN "accepted" ELSE "rejected"
            /\ UNCHANGED <<driver, cur, hist, trials, serialized>>

\* accepted: the state is saved; an accepted change of the atom count / the cell is announced ONCE to every
\* distinct move object of the table (here: to the user move)
Save == /\ pc = "accepted"
        /\ log' = CASE cur.entry \in AtomChanging -> log \o [i \in 1..Len(UserMoves(driver)) |-> <<"on_atoms_changed", UserMoves(driver)[i]>>]
                    [] cur.entry \in CellChanging -> log \o [i \in 1..Len(UserMoves(driver)) |-> <<"on_cell_changed", UserMoves(driver)[i]>>]
                    [] OTHER -> log
        /\ hist' = Append(hist, <<cur.entry, "acc">>) /\ trials' = trials + 1 /\ pc' = "idle"
        /\ UNCHANGED <<driver, cur, serialized>>

Revert == /\ pc = "rejected"
          /\ hist' = Append(hist, <<cur.entry, "rej">>) /\ trials' = trials + 1 /\ pc' = "idle"
          /\ UNCHANGED <<driver, cur, log, serialized>>

\* a falsy result: recorded as not attempted, the criteria is not consulted
NotAttempted == /\ pc = "called_false"
                /\ hist' = Append(hist, <<cur.entry, "none">>) /\ trials' = trials + 1 /\ pc' = "idle"
                /\ UNCHANGED <<driver, cur, log, serialized>>

\* between two trials the simulation may be serialized and rebuilt: every user component converts itself once
SerializeSim == /\ pc = "idle" /\ ~serialized /\ trials >= 1 /\ trials < MaxTrials
             /\ serialized' = TRUE
             /\ log' = log \o SerLog(driver)
             /\ UNCHANGED <<driver, pc, cur, hist, trials>>

\* ... and whenever the simulation is serialized again, every user component is asked again (its dictionary may have
\* changed with the run): nothing is remembered from an earlier serialization
SerializeAgain == /\ pc = "idle" /\ serialized /\ trials = MaxTrials /\ again < 2
                  /\ again' = again + 1
                  /\ log' = log \o SerHalf(driver, "to_dict")
                  /\ UNCHANGED <<driver, pc, cur, hist, trials, serialized>>

Main == (\E t \in Trial : Yield(t)) \/ Call \/ Evaluate \/ Save \/ Revert \/ NotAttempted \/ SerializeSim
Next == \/ (Main /\ UNCHANGED again)
        \/ SerializeAgain
Spec == Init /\ [][Next]_vars

(* ---- properties ----------------------------------------------------------- *)
Alphabet == {"call", "evaluate", "on_atoms_changed", "on_cell_changed", "to_dict", "from_dict"}
C20_AlphabetOnly == \A i \in 1..Len(log) : log[i][1] \in Alphabet
\* evaluate happens only for a trial whose move returned truthy, never after a falsy call
C20_EvaluateOnlyAfterTruthy == pc \in {"accepted", "rejected"} => cur.res
C20_FalsyIsNotAttempted == \A i \in 1..Len(hist) : TRUE
C20_HistoryLength == Len(hist) = trials
Count(l, a) == Cardinality({i \in 1..Len(l) : l[i][1] = a})
C20_NotifiedPerAcceptedChange ==
    pc = "idle" => /\ Count(log, "on_atoms_changed") = Len(UserMoves(driver)) * Cardinality({i \in 1..Len(hist) : hist[i][1] \in AtomChanging /\ hist[i][2] = "acc"})
                   /\ Count(log, "on_cell_changed") = Len(UserMoves(driver)) * Cardinality({i \in 1..Len(hist) : hist[i][1] \in CellChanging /\ hist[i][2] = "acc"})
C20_OneEvaluatePerAttempt ==
    pc = "idle" => Count(log, "evaluate") = Cardinality({i \in 1..Len(hist) : hist[i][2] # "none"})

(* ---- export: every behaviour (sequence of trials, optional serialization point) per driver -------- *)
RECURSIVE Behaviours(_, _)
Behaviours(d, k) ==
    IF k = 0 THEN {<<>>}
    ELSE Behaviours(d, k - 1) \cup
         {Append(b, t) : b \in {x \in Behaviours(d, k - 1) : Len(x) = k - 1},
                         t \in {x \in Trial : x.entry \in EntriesOf(d) /\ (x.entry \notin UserEntries => x.res) /\ (~x.res => ~x.acc)}}
RECURSIVE ExpectedLog(_, _, _, _)
ExpectedLog(d, b, s, i) ==
    IF i > Len(b) THEN <<>>
    ELSE TrialLog(d, b[i]) \o (IF s = 1 /\ i = 1 /\ Len(b) > 1 THEN SerLog(d) ELSE <<>>)
         \o (IF s = 1 /\ i = Len(b) /\ Len(b) > 1 THEN SerHalf(d, "to_dict") \o SerHalf(d, "to_dict") ELSE <<>>) \o ExpectedLog(d, b, s, i + 1)
ExpectedHist(b) == [i \in 1..Len(b) |-> IF ~b[i].res THEN "none" ELSE IF b[i].acc THEN "acc" ELSE "rej"]

Cases == UNION {{[driver |-> d, trials |-> b, serialize_after |-> s, log |-> ExpectedLog(d, b, s, 1), hist |-> ExpectedHist(b)] : b \in {x \in Behaviours(d, MaxTrials) : Len(x) >= 1}, s \in {0, 1}} : d \in Drivers}
Export ==
    IF TLCGet("stats").distinct < 0 \/ OutFile = "" THEN TRUE
    ELSE ndJsonSerialize(OutFile, SetToSeq(Cases))
=============================================================================
