----------------------------- MODULE Serial -----------------------------
(* C08 (second part) -- every shipped component survives serialization.

   A component is  [cls, set, kids]:  its class, the subset of its constructor
   parameters / documented tunables that has been given a non-default value,
   and its nested components.  The round trip is

      built --ToDict--> dict --Encode--> text --Decode--> dict'
            --Lookup(registered name)/FromDict--> rebuilt --ToDict--> dict''

   and the property is  rebuilt = built  and  dict'' = dict.  In the
   specification ToDict/Encode/Decode/FromDict are injective by definition
   (that IS the property); what the model contributes is the enumeration of
   the configurations -- catalogue (SerialData, introspected from the working
   tree at check time) x parameter subsets x nesting shapes -- every one of
   which is executed against the implementation.                          *)
EXTENDS Integers, Sequences, FiniteSets, TLC, Json, IOUtils, SequencesExt, SerialData

OutFile == IF "SER_OUT" \in DOMAIN IOEnv THEN IOEnv.SER_OUT ELSE ""
Deep == IF "SER_DEPTH" \in DOMAIN IOEnv THEN IOEnv.SER_DEPTH = "2" ELSE FALSE

OfRole(r) == {c \in Classes : Role[c] = r}
Leafs(r) == {c \in OfRole(r) : Children[c] = ""}

Cfg(c, S, K) == [cls |-> c, set |-> S, kids |-> K]
\* parameter subsets: all of them when Deep, otherwise none / each single one / all
Subsets(c) == IF Deep \/ Cardinality(Params[c]) <= 2 THEN SUBSET Params[c]
              ELSE {{}} \cup {{p} : p \in Params[c]} \cup {Params[c]}
Ends(c) == {{}, Params[c]}

LeafOps == {Cfg(c, S, <<>>) : <<c, S>> \in UNION {{<<d, T>> : T \in Ends(d)} : d \in Leafs("operation")}}
Integrators == {Cfg(c, S, <<>>) : <<c, S>> \in UNION {{<<d, T>> : T \in Ends(d)} : d \in OfRole("integrator")}}
CompOps == {Cfg(c, {}, K) : c \in {d \in OfRole("operation") : Children[d] = "operations"},
                            K \in {<<a>> : a \in LeafOps} \cup (IF Deep THEN {<<a, b>> : a \in LeafOps, b \in LeafOps} ELSE {})}
Ops == LeafOps \cup CompOps

ElemMoves == UNION {
    {Cfg(c, S, <<o>>) : S \in Ends(c), o \in (IF Deep THEN Ops ELSE {x \in LeafOps : x.set = Params[x.cls]})} : c \in {d \in OfRole("move") : Children[d] = "operation"}}
  \cup UNION {{Cfg(c, S, <<i>>) : S \in Ends(c), i \in Integrators} : c \in {d \in OfRole("move") : Children[d] = "integrator"}}
CompMoves == UNION {{Cfg(c, S, <<m>>) : S \in Ends(c), m \in {x \in ElemMoves : x.set = {}}} : c \in {d \in OfRole("move") : Children[d] = "moves"}}
Criterias == {Cfg(c, {}, <<>>) : c \in OfRole("criteria")}

(* the top-level configurations: every class with every (tier-dependent) parameter subset and a default nesting,
   plus every class once with each nested alternative *)
\* one representative configuration per move class (all parameters non-default, one default child)
RepKid(c) == CASE Children[c] = "operation" -> <<CHOOSE o \in LeafOps : o.set = Params[o.cls] /\ Params[o.cls] # {}>>
               [] Children[c] = "integrator" -> <<CHOOSE i \in Integrators : i.set = Params[i.cls]>>
               [] Children[c] = "moves" -> <<CHOOSE m \in ElemMoves : m.set = {} /\ Children[m.cls] = "operation">>
               [] OTHER -> <<>>
RepMoves == {Cfg(c, Params[c], RepKid(c)) : c \in OfRole("move")}
RepCriteria == CHOOSE k \in Criterias : TRUE

DefaultKids(c) ==
    CASE Children[c] = "" -> {<<>>}
      [] Children[c] = "operation" -> {<<o>> : o \in {x \in LeafOps : x.set = {}}}
      [] Children[c] = "integrator" -> {<<i>> : i \in {x \in Integrators : x.set = {}}}
      [] Children[c] = "operations" -> {<<a, b>> : a \in {x \in LeafOps : x.set = Params[x.cls]}, b \in {x \in LeafOps : x.set = {}}}
                                      \* a composite operation nested in a composite operation (+ and * flatten; the constructor does not)
                                      \cup {<<n, b>> : n \in {x \in CompOps : Len(x.kids) = 1 /\ x.kids[1].set = {}}, b \in {x \in LeafOps : x.set = {} /\ Params[x.cls] # {}}}
      [] Children[c] = "moves" -> {<<a>> : a \in ElemMoves} \cup {<<a, a>> : a \in {x \in ElemMoves : x.set = {}}}
                                      \* a composite nested in a composite (explicit constructor calls can build these)
                                      \cup {<<n, a>> : n \in {x \in RepMoves : Children[x.cls] = "moves"}, a \in {x \in RepMoves : Children[x.cls] = "operation"}}
      [] Children[c] = "storage" -> {<<m, k>> : m \in RepMoves, k \in Criterias}
      [] Children[c] = "table" -> {<<>>} \cup {<<[cls |-> "MoveStorage", set |-> Params["MoveStorage"], kids |-> <<m, RepCriteria>>]>> : m \in RepMoves}
      [] OTHER -> {<<>>}

Top == UNION {{Cfg(c, S, K) : S \in Subsets(c), K \in DefaultKids(c)} : c \in Classes}
       \cup Ops \cup ElemMoves

VARIABLES comp, phase, dict, rebuilt, redict

vars == <<comp, phase, dict, rebuilt, redict>>

ToDict(c) == [name |-> c.cls, set |-> c.set, kids |-> c.kids]        \* abstract dictionary: injective
FromDict(d) == [cls |-> d.name, set |-> d.set, kids |-> d.kids]

Init == comp \in Top /\ phase = "built" /\ dict = <<>> /\ rebuilt = <<>> /\ redict = <<>>
DoSerialize == phase = "built" /\ dict' = ToDict(comp) /\ phase' = "dict" /\ UNCHANGED <<comp, rebuilt, redict>>
JsonRoundTrip == phase = "dict" /\ phase' = "decoded" /\ UNCHANGED <<comp, dict, rebuilt, redict>>
Rebuild == phase = "decoded" /\ dict.name \in Classes /\ rebuilt' = FromDict(dict) /\ phase' = "rebuilt" /\ UNCHANGED <<comp, dict, redict>>
Reserialize == phase = "rebuilt" /\ redict' = ToDict(rebuilt) /\ phase' = "done" /\ UNCHANGED <<comp, dict, rebuilt>>
Next == DoSerialize \/ JsonRoundTrip \/ Rebuild \/ Reserialize
Spec == Init /\ [][Next]_vars

C08_SameObject == phase \in {"rebuilt", "done"} => rebuilt = comp
C08_SameDict == phase = "done" => redict = dict
C08_Registered == phase = "decoded" => dict.name \in Classes

RECURSIVE Jsonable(_)
Jsonable(c) == [cls |-> c.cls, set |-> SetToSeq(c.set), kids |-> [i \in 1..Len(c.kids) |-> Jsonable(c.kids[i])]]
Export ==
    IF TLCGet("stats").distinct < 0 \/ OutFile = "" THEN TRUE
    ELSE ndJsonSerialize(OutFile, SetToSeq({Jsonable(c) : c \in Top}))
=============================================================================
