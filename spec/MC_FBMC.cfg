SPECIFICATION Spec
INVARIANT C13_Bounded
INVARIANT C13_OnceOnly
INVARIANT C13_AdvanceNeedsAll
INVARIANT C13_PIsProbability
INVARIANT C13_FavoursForce
INVARIANT C13_IncreasinglyFavoured
INVARIANT C13_CanAlwaysConverge
PROPERTY C13_ConvergedKeepsZeta
POSTCONDITION Export
