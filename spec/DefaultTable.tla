--------------------------- MODULE DefaultTable ---------------------------
(* The move table a driver builds by itself from the default moves it is
   given (mc/canonical.py, mc/isobaric.py: set_default_probability,
   mc/isotension.py, mc/gcmc.py) -- the table C09's scheduler then works on.

   Entries are added in a fixed order (displacement, then cell or exchange)
   under fixed names, every slot every step (interval 1, no forced slot); the
   number of trials per step defaults to the number of atoms; in the
   constant-pressure drivers the weights are the textbook recipe "one volume
   trial per sweep": cell 1/(N+1), displacement N/(N+1) -- as rationals
   <<numerator, denominator>>, so that the sum and the ratio are checked
   exactly; elsewhere the weight is 1.                                      *)
EXTENDS Integers, Sequences, FiniteSets, TLC, Json, IOUtils

MaxN == IF "DEFTAB_N" \in DOMAIN IOEnv THEN (IF IOEnv.DEFTAB_N = "12" THEN 12 ELSE 6) ELSE 6
Drivers == {"Canonical", "Isobaric", "Isotension", "GrandCanonical"}
Pressure(d) == d \in {"Isobaric", "Isotension"}

VARIABLES driver, n, giveDisp, giveSecond, cyclesGiven
vars == <<driver, n, giveDisp, giveSecond, cyclesGiven>>

Init == /\ driver \in Drivers /\ n \in 1..MaxN /\ giveDisp \in BOOLEAN /\ giveSecond \in BOOLEAN
        /\ cyclesGiven \in {0, 1, 3}                 \* 0 = not given
        /\ (driver = "Canonical" => ~giveSecond)     \* a canonical driver takes no second default move
Next == UNCHANGED vars
Spec == Init /\ [][Next]_vars

One == <<1, 1>>
SecondName == IF Pressure(driver) THEN "default_cell_move" ELSE "default_exchange_move"
Table ==
    (IF giveDisp THEN <<[name |-> "default_displacement_move", weight |-> IF Pressure(driver) THEN <<n, n + 1>> ELSE One, interval |-> 1, min |-> 0]>> ELSE <<>>)
    \o (IF giveSecond THEN <<[name |-> SecondName, weight |-> IF Pressure(driver) THEN <<1, n + 1>> ELSE One, interval |-> 1, min |-> 0]>> ELSE <<>>)
Cycles == IF cyclesGiven = 0 THEN n ELSE cyclesGiven

Weight(nm) == LET i == CHOOSE i \in 1..Len(Table) : Table[i].name = nm IN Table[i].weight

\* the full constant-pressure table: weights sum to one, displacement : cell = N : 1
T_SweepRecipe == (Pressure(driver) /\ giveDisp /\ giveSecond) =>
    LET d == Weight("default_displacement_move")  c == Weight("default_cell_move")
    IN /\ d[2] = c[2] /\ d[1] + c[1] = d[2]
       /\ d[1] = n * c[1]
\* every weight is a probability, and positive (a default move that could never be drawn would make the step unschedulable: C09)
T_Weights == \A i \in 1..Len(Table) : Table[i].weight[1] > 0 /\ Table[i].weight[1] <= Table[i].weight[2]
T_NamesDistinct == \A i, j \in 1..Len(Table) : i # j => Table[i].name # Table[j].name
T_NothingForced == \A i \in 1..Len(Table) : Table[i].min = 0 /\ Table[i].interval = 1

Emit == PrintT("@@" \o ToJson([driver |-> driver, n |-> n, disp |-> giveDisp, second |-> giveSecond, cycles_given |-> cyclesGiven, cycles |-> Cycles, table |-> Table]))
EmitAll == Emit
=============================================================================
