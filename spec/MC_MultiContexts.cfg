SPECIFICATION Spec
INVARIANT M_RevertAllRestoresEveryMember
INVARIANT M_SaveAllRemembersEveryMember
INVARIANT M_SavedWasShown
PROPERTY M_MembersIndependent
PROPERTY M_AllIsEach
INVARIANT M_FunctionalAgrees
INVARIANT EmitAll
CHECK_DEADLOCK FALSE
