SPECIFICATION Spec
INVARIANT C09_Contract
INVARIANT C09_NeverOvercommitted
INVARIANT C09_PrefixFeasible
INVARIANT C09_WeightZeroNeverFree
INVARIANT C09_AbstractionInv
PROPERTY C09_AbstractionStep
POSTCONDITION Export
