--------------------------- MODULE QMC_Trace ---------------------------
(* Trace validation of recorded quansino runs against QMC.tla.

   TRACE_FILE (environment) is a JSON array of traces
        [ {setup: ..., ev: [ {a, name, res, verdict, subs, where, exc, s}, ... ]}, ... ]
   recorded by harness/qrec.py.  One TLC behaviour per trace: at every
   event the state the specification predicts (QMC's operators applied to
   the previous *observed* state and the event's arguments) is compared
   field by field with the observed state, and the property predicates are
   evaluated on the observed state itself.  A mismatch is printed
   (one line "@@{json}") and validation continues from the observed state,
   so the verdict is total: every event of every trace is judged.        *)
EXTENDS QMC, Json, IOUtils

Traces == JsonDeserialize(IOEnv.TRACE_FILE)

VARIABLES tid, l, s, pre, pc, lastName, lastVerdict, nbad

tvars == <<tid, l, s, pre, pc, lastName, lastVerdict, nbad>>

(* The recorded lastE / lastRes / calcRes are the SETS (as sequences) of recently
   seen configurations whose from-scratch energy equals the recorded value: two
   configurations can have the same energy, so ownership of an energy is a set.
   Lift picks the member the specification expects when there is one. *)
EFields == {"lastE", "lastRes", "calcRes"}
Pick(want, cands) == IF want \in ToSet(cands) THEN want ELSE cands[1]
Lift0(o) == [o EXCEPT !.cons = ToSet(o.cons), !.lastE = o.lastE[1], !.lastRes = o.lastRes[1], !.calcRes = o.calcRes[1]]
\* (the same for the kinetic energy: lastKalt lists every recently seen momentum tuple with that kinetic energy)
LiftWith(o, exp) == [o EXCEPT !.cons = ToSet(o.cons), !.lastE = Pick(exp.lastE, o.lastE),
                              !.lastRes = Pick(exp.lastRes, o.lastRes), !.calcRes = Pick(exp.calcRes, o.calcRes),
                              !.lastK = IF exp.lastK \in ToSet(o.lastKalt) THEN exp.lastK ELSE o.lastK]
(* at the end of a trial the energies should belong to the current configuration *)
LiftEnd(o) == LET c == Cfg(Lift0(o))
              IN [o EXCEPT !.cons = ToSet(o.cons), !.lastE = Pick(c, o.lastE),
                           !.lastRes = Pick(c, o.lastRes), !.calcRes = Pick(c, o.calcRes)]

Fields == {"atoms", "cell", "cons", "lastPos", "lastCell", "lastMom", "lastE", "lastK", "lastRes",
           "calcAtoms", "calcRes", "evals", "added", "deleted", "pdelta", "nexch",
           "labels", "presel", "tmpl"}

Diff(exp, o) == {f \in Fields : exp[f] # o[f]}

(* The statement fixes which atoms share a label, that labels present before are kept, that a configured default
   is used and that negative labels stay negative -- not the NUMBER a fresh label gets.  Two label arrays are
   equivalent when they agree on every label that existed before (or is the configured default) and induce the
   same partition otherwise. *)
LabelsEquiv(before, defLab, e, o) ==
    /\ Len(e) = Len(o)
    /\ \A i \in 1..Len(e) :
          /\ ((e[i] \in QRange(before) \/ e[i] = defLab) => o[i] = e[i])
          /\ ((o[i] \in QRange(before) \/ o[i] = defLab) => o[i] = e[i])
          /\ (e[i] >= 0 <=> o[i] >= 0)
    /\ \A i, j \in 1..Len(e) : (e[i] = e[j]) <=> (o[i] = o[j])
AllLabelsEquiv(setup, s0, exp, o) ==
    /\ DOMAIN exp.labels = DOMAIN o.labels
    /\ \A m \in DOMAIN exp.labels : LabelsEquiv(s0.labels[m], setup.mobj[m].defLabel, exp.labels[m], o.labels[m])

Report(kind, what) ==
    LET e == Traces[tid].ev[l + 1]      \* the event being judged
    IN PrintT("@@" \o ToJson([tid |-> tid, l |-> l + 1, a |-> e.a, name |-> e.name,
                               kind |-> kind, what |-> what, verdict |-> e.verdict,
                               subs |-> e.subs, exc |-> e.exc, where |-> e.where]))

(* property predicates evaluated on an observed end-of-trial state *)
InvFailures(setup, o, p, verdict, hasHam) ==
       (IF verdict # "acc" /\ ~C03_Restored(o, p) THEN {"C03_Restored"} ELSE {})
  \cup (IF verdict # "acc" /\ ~C03_NoLeak(o, p) THEN {"C03_NoLeak"} ELSE {})
  \cup (IF setup.ctx # "base" /\ ~C04_Own(o) THEN {"C04_Own"} ELSE {})
  \cup (IF setup.ctx # "base" /\ ~C04_NoRecompute(o) THEN {"C04_NoRecompute"} ELSE {})
  \cup (IF ~hasHam /\ o.evals - p.evals > (IF verdict = "none" THEN 0 ELSE 1) THEN {"C04_OneEval"} ELSE {})
  \cup (IF ~C05_Aligned(o) THEN {"C05_Aligned"} ELSE {})
  \cup (IF ~C05_Template(o, p) THEN {"C05_Template"} ELSE {})
  \cup (IF o.added # <<>> \/ o.deleted # <<>> \/ o.pdelta # 0 THEN {"C03_Pending"} ELSE {})
  \* C12: with an unchanged cell and atom count, an atom fixed by FixAtoms is where it was
  \cup (IF Len(o.atoms) = Len(p.atoms) /\ o.cell = p.cell /\ o.cons = p.cons
           /\ \E j \in p.cons : j <= Len(o.atoms) /\ o.atoms[j].pos # p.atoms[j].pos
        THEN {"C12_Fixed"} ELSE {})

Init == /\ tid \in 1..Len(Traces)
        /\ l = 1
        /\ s = LiftEnd(Traces[tid].ev[1].s)
        /\ pre = LiftEnd(Traces[tid].ev[1].s)
        /\ pc = "yielded" /\ lastName = Traces[tid].ev[1].name    \* every trace starts at a yield
        /\ lastVerdict = "none" /\ nbad = 0

Step ==
    /\ l < Len(Traces[tid].ev)
    /\ LET T == Traces[tid]
           setup == T.setup
           e == T.ev[l + 1]
           o0 == Lift0(e.s)
           entry == IF e.name \in DOMAIN setup.moves THEN setup.moves[e.name] ELSE [ctype |-> "single", elems |-> <<>>, hasHam |-> FALSE]
           \* --- what the specification predicts -------------------------
           \* "edit": between two run calls the user changed the atoms by hand, declared the remembered energy void and
           \* let the simulation re-validate -- whatever is observed then is the new state (it must satisfy C04_Own)
           exp == CASE e.a = "edit" -> Lift0(e.s)
                    [] e.a = "yield" -> s
                    [] e.a = "call"  -> AfterCall(setup, s, entry, e.subs, o0)
                    [] e.a = "eval"  -> AfterEval(setup, s, entry)
                    [] e.a = "end"   -> CASE e.verdict = "acc" -> Accept(setup, s)
                                          [] e.verdict = "rej" -> Reject(setup, s, pre)
                                          [] OTHER -> NotAttempted(setup, s, pre)
                    [] OTHER -> s
           \* at a yield the user's script may have pre-selected a target
           o == LiftWith(e.s, exp)
           \* FixCom can undo a whole-system translation up to rounding: the position bits change
           \* but the calculator (tolerance 1e-15) regards the configuration as the one it has
           \* (after a restart the remembered results are an empty dictionary that revert_state hands to the calculator;
           \*  a later evaluation of the SAME, restored configuration may fill it in place: the remembered results are then
           \*  those of the reference configuration, which is what they are in an uninterrupted run)
           d0 == IF e.a = "raise" THEN {}
                ELSE IF e.a = "yield" THEN Diff(exp, o) \ {"presel"}
                ELSE IF e.a = "call" /\ setup.fixcom /\ o.calcAtoms = Cfg(o) THEN Diff(exp, o) \ {"calcAtoms"}
                ELSE IF e.a = "end" /\ e.verdict = "acc" /\ AllLabelsEquiv(setup, s, exp, o) THEN Diff(exp, o) \ {"labels"}
                ELSE Diff(exp, o)
           d == IF exp.lastRes = NoCfg /\ o.lastRes = o.lastE
                THEN d0 \ ({"lastRes"} \cup (IF exp.calcRes = NoCfg /\ o.calcRes = o.lastRes /\ o.calcRes = o.calcAtoms THEN {"calcRes"} ELSE {}))
                ELSE d0
           \* --- protocol: order of the calls the driver makes ------------
           order == CASE e.a = "yield" -> pc = "idle"
                      [] e.a = "call"  -> pc = "yielded" /\ e.name = lastName
                      [] e.a = "eval"  -> pc = "called_true" /\ e.name = lastName
                      [] e.a = "end"   -> /\ e.name = lastName
                                          /\ \/ (pc = "evaluated" /\ e.verdict = lastVerdict)
                                             \/ (pc = "called_false" /\ e.verdict = "none")
                      [] OTHER -> TRUE
           legal == IF e.a = "call"
                    THEN /\ CallLegal(setup, s, entry, e.subs, o)
                         /\ e.res = AnyOk(e.subs)
                    ELSE TRUE
           moved == IF e.a = "call" /\ ~setup.fixcom /\ (\A i \in 1..Len(e.subs) : e.subs[i].k \in {"disp"})
                       /\ (\A i \in 1..Len(entry.elems) : setup.mobj[entry.elems[i]].nonzero)
                    THEN \A j \in Entitled(setup, s, entry, e.subs, o) : o.atoms[j].pos # s.atoms[j].pos
                    ELSE TRUE
           inv == IF e.a = "end" THEN InvFailures(setup, o, pre, e.verdict, entry.hasHam)
                  ELSE IF e.a \in {"yield", "edit"} /\ setup.ctx # "base" /\ ~(C04_Own(o) /\ C04_NoRecompute(o)) THEN {"C04_AtYield"}
                  ELSE {}
           \* C11: a composite displacement reports how many particles it moved, and without vetoes it moves
           \* min(number of elements, eligible particles) of them (all elements one move object: eligible is unambiguous)
           nok == Cardinality({i \in 1..Len(e.subs) : e.subs[i].ok})
           sameObj == \A i \in 1..Len(entry.elems) : entry.elems[i] = entry.elems[1]
           reported == IF e.a = "call" /\ entry.ctype = "cdisp"
                       THEN /\ e.nmoved = nok
                            /\ (e.noveto /\ sameObj) => nok = (IF Len(entry.elems) < Cardinality(UniqueLabels(s.labels[entry.elems[1]]))
                                                                THEN Len(entry.elems) ELSE Cardinality(UniqueLabels(s.labels[entry.elems[1]])))
                       ELSE TRUE
           bad == (e.a = "raise") \/ ~reported \/ d # {} \/ ~order \/ ~legal \/ ~moved \/ inv # {}
       IN /\ (e.a = "raise") => Report("raise", {e.where})
          /\ (d # {}) => Report("step", d)
          /\ (~order) => Report("protocol", {pc})
          /\ (~legal) => Report("illegal-choice", {"legal"})
          /\ (~moved) => Report("not-moved", {"entitled"})
          /\ (~reported) => Report("not-moved", {"composite-count"})
          /\ (inv # {}) => Report("inv", inv)
          \* resynchronise on the observed state -- except the label arrays when they are NOT equivalent to the specified
          \* ones: who carries which label is then known from the specification only, and later displacement calls are
          \* judged against it (a move whose labels have slipped displaces atoms it must not touch)
          /\ s' = IF "labels" \in d /\ DOMAIN exp.labels = DOMAIN o.labels
                        /\ \A m \in DOMAIN o.labels : Len(exp.labels[m]) = Len(o.atoms)
                   THEN [o EXCEPT !.labels = exp.labels] ELSE o
          /\ pre' = IF e.a = "yield" THEN o ELSE pre
          /\ pc' = CASE e.a = "yield" -> "yielded"
                     [] e.a = "call" -> IF e.res THEN "called_true" ELSE "called_false"
                     [] e.a = "eval" -> "evaluated"
                     [] e.a = "end"  -> "idle"
                     [] OTHER -> pc
          /\ lastName' = IF e.a = "yield" THEN e.name ELSE lastName
          /\ lastVerdict' = IF e.a = "eval" THEN e.verdict ELSE lastVerdict
          /\ nbad' = nbad + (IF bad THEN 1 ELSE 0)
          /\ l' = l + 1
          /\ tid' = tid

Done ==
    /\ l = Len(Traces[tid].ev)
    /\ pc # "finished"
    /\ PrintT("@@" \o ToJson([tid |-> tid, done |-> l, nbad |-> nbad]))
    /\ pc' = "finished"
    /\ UNCHANGED <<tid, l, s, pre, lastName, lastVerdict, nbad>>

Next == Step \/ Done

Spec == Init /\ [][Next]_tvars
=============================================================================
