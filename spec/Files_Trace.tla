--------------------------- MODULE Files_Trace ---------------------------
(* Trace validation + crash enumeration for C16 on RECORDED operation logs.

   TRACE_FILE: JSON array of per-file traces
       {kind: "log"|"traj"|"restart", mode: "a"|"w",
        old: units the file held before the run (a log another simulation left behind, 'a' mode; usually empty),
        ops: [ {op: "w", units: [[tag,k,i],...]} | {op:"f"} | {op:"s"} | {op:"t"} | {op:"end"} | {op:"fail"} ]}
   recorded from real observers writing through an instrumented file object
   ("end" marks the return of one observer call, "fail" an observer call that raised: Files.tla's LogFail --
   nothing of the failed call may be in the file or its buffer).  The operations are applied
   with the file semantics of Files.tla; in EVERY state every content the file
   could have after a crash (disk + any prefix of the buffer) is judged, and at
   every "end" the disk content itself.                                    *)
EXTENDS Integers, Sequences, FiniteSets, TLC, SequencesExt, Json, IOUtils

Apply(disk, pos, buf, mode) ==
    IF mode = "a" THEN disk \o buf
    ELSE SubSeq(disk, 1, pos) \o buf \o SubSeq(disk, pos + Len(buf) + 1, Len(disk))
FWrite(f, units) == [f EXCEPT !.buf = @ \o units]
FFlush(f) == LET d == Apply(f.disk, f.pos, f.buf, f.mode)
             IN [f EXCEPT !.disk = d, !.buf = <<>>,
                          !.pos = IF Len(f.buf) = 0 THEN f.pos ELSE IF f.mode = "a" THEN Len(d) ELSE f.pos + Len(f.buf)]
FSeek0(f) == [FFlush(f) EXCEPT !.pos = 0]
FTruncate(f) == LET g == FFlush(f) IN [g EXCEPT !.disk = SubSeq(g.disk, 1, g.pos)]
BufPrefixes(q) == {SubSeq(q, 1, k) : k \in 0..Len(q)}
Survivors(f) == {Apply(f.disk, f.pos, p, f.mode) : p \in BufPrefixes(f.buf)}

Traces == JsonDeserialize(IOEnv.TRACE_FILE)

VARIABLES tid, i, f, done, cur, completed, docs
\* done: completed observer calls; cur: units written in the call in progress;
\* completed: units of all completed calls in order (log, traj); docs: the documents of completed calls (restart)
tvars == <<tid, i, f, done, cur, completed, docs>>

Init == /\ tid \in 1..Len(Traces) /\ i = 0 /\ done = 0 /\ cur = <<>> /\ completed = Traces[tid].old /\ docs = {}
        /\ f = [disk |-> Traces[tid].old, buf |-> <<>>, pos |-> Len(Traces[tid].old), mode |-> Traces[tid].mode]

Kind == Traces[tid].kind

CrashOK(surv) ==
    IF Kind = "restart" THEN (done > 0 => (surv \in docs \/ (cur # <<>> /\ surv = cur)))
    ELSE IsPrefix(completed, surv)

EndOK == /\ f.buf = <<>>
         /\ IF Kind = "restart" THEN f.disk = cur ELSE f.disk = completed \o cur

Report(what) == PrintT("@@" \o ToJson([tid |-> tid, i |-> i, kind |-> Kind, what |-> what, done |-> done,
                                       op |-> IF i = 0 THEN "init" ELSE Traces[tid].ops[i].op]))

Step ==
    /\ i < Len(Traces[tid].ops)
    /\ LET o == Traces[tid].ops[i + 1]
           g == CASE o.op = "w" -> FWrite(f, o.units)
                  [] o.op = "f" -> FFlush(f)
                  [] o.op = "s" -> FSeek0(f)
                  [] o.op = "t" -> FTruncate(f)
                  [] OTHER -> f
       IN /\ f' = g
          /\ i' = i + 1
          /\ cur' = IF o.op = "w" THEN cur \o o.units ELSE IF o.op = "end" THEN <<>> ELSE cur
          /\ done' = IF o.op = "end" THEN done + 1 ELSE done
          /\ completed' = IF o.op = "end" THEN completed \o cur ELSE completed
          /\ docs' = IF o.op = "end" THEN docs \cup {cur} ELSE docs
          /\ (o.op = "end" /\ ~EndOK) => Report("after-call")
          /\ (o.op = "fail" /\ cur # <<>>) => Report("failed-call-left-partial-record")
    /\ tid' = tid

\* judged in every state: every possible crash content
CrashInv == (\E surv \in Survivors(f) : ~CrashOK(surv)) => Report("crash")

Judge == /\ i <= Len(Traces[tid].ops) /\ CrashInv

Spec == Init /\ [][Step]_tvars
Finished == TLCGet("stats").distinct >= 1
=============================================================================
