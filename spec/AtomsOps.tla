---------------------------- MODULE AtomsOps ----------------------------
(* C19 -- utils/atoms.py

   (1) reinsert_atoms inverts deletion: atoms are a sequence of distinct
       identities; Delete(I) removes the atoms at the index *sequence* I
       (distinct indices, any order) and remembers them in that order;
       Reinsert puts remembered[k] back at index I[k].  Property: the
       sequence is what it was.
   (2) search_molecules: for a graph on the atoms (edges = pairs within the
       cutoff) two atoms get the same non-negative label exactly when they
       are connected and their component's size is admitted; every other
       atom keeps the supplied default.

   Both are finite case analyses: TLC enumerates all cases up to MaxN atoms
   and exports them; harness/c19.py replays every case on real Atoms. *)
EXTENDS Naturals, Sequences, FiniteSets, TLC, Json, IOUtils, SequencesExt

CONSTANTS MaxN

OutFile == IF "AO_OUT" \in DOMAIN IOEnv THEN IOEnv.AO_OUT ELSE ""

(* ---------- sequences -------------------------------------------------- *)
Ident(n) == [i \in 1..n |-> i]

RECURSIVE Perms(_)
\* all sequences of distinct elements drawn from the set S (all subsets, all orders)
Perms(S) == {<<>>} \cup UNION {{<<x>> \o p : p \in Perms(S \ {x})} : x \in S}

QRange(q) == {q[i] : i \in 1..Len(q)}

DeleteAt(s, I) == SelectSeq(s, LAMBDA x : \A k \in 1..Len(I) : s[I[k]] # x)   \* identities are distinct
Saved(s, I) == [k \in 1..Len(I) |-> s[I[k]]]

(* the unique sequence r of length Len(rem)+Len(I) with r[I[k]] = saved[k]
   and the remaining slots filled by rem in order *)
Reinsert(rem, saved, I) ==
    LET n == Len(rem) + Len(I)
        slots == {i \in 1..n : i \notin QRange(I)}
        rank(i) == Cardinality({j \in slots : j <= i})
    IN [i \in 1..n |-> IF i \in QRange(I)
                       THEN saved[CHOOSE k \in 1..Len(I) : I[k] = i]
                       ELSE rem[rank(i)]]

(* ---------- graphs ------------------------------------------------------ *)
Pairs(n) == {{a, b} : a \in 1..n, b \in 1..n} \ {{a} : a \in 1..n}

RECURSIVE Grow(_, _, _)
Grow(S, E, n) == LET T == S \cup {w \in 1..n : \E v \in S : {v, w} \in E}
                 IN IF T = S THEN S ELSE Grow(T, E, n)
Components(E, n) == {Grow({v}, E, n) : v \in 1..n}

Filters == {"none", "one", "two", "two_three", "upto_two"}
Admits(f, k) == CASE f = "none" -> TRUE
                  [] f = "one" -> k = 1
                  [] f = "two" -> k = 2
                  [] f = "two_three" -> k \in 2..3
                  [] f = "upto_two" -> k \in 0..2
Admitted(E, n, f) == {C \in Components(E, n) : Admits(f, Cardinality(C))}

(* ---------- state machine ------------------------------------------------ *)
VARIABLES mode, n, atoms, I, saved, phase, E, filt, labelled

vars == <<mode, n, atoms, I, saved, phase, E, filt, labelled>>

Init ==
    \/ /\ mode = "reinsert"
       /\ n \in 1..MaxN
       /\ atoms = Ident(n)
       /\ I \in Perms(1..n)
       /\ saved = <<>> /\ phase = "start"
       /\ E = {} /\ filt = "none" /\ labelled = {}
    \/ /\ mode = "search"
       /\ n \in 1..MaxN
       /\ atoms = Ident(n) /\ I = <<>> /\ saved = <<>> /\ phase = "start"
       /\ E \in SUBSET Pairs(n)
       /\ filt \in Filters
       /\ labelled = {}

Delete ==
    /\ mode = "reinsert" /\ phase = "start"
    /\ saved' = Saved(atoms, I)
    /\ atoms' = DeleteAt(atoms, I)
    /\ phase' = "deleted"
    /\ UNCHANGED <<mode, n, I, E, filt, labelled>>

Restore ==
    /\ mode = "reinsert" /\ phase = "deleted"
    /\ atoms' = Reinsert(atoms, saved, I)
    /\ phase' = "restored"
    /\ UNCHANGED <<mode, n, I, saved, E, filt, labelled>>

Search ==
    /\ mode = "search" /\ phase = "start"
    /\ labelled' = Admitted(E, n, filt)
    /\ phase' = "searched"
    /\ UNCHANGED <<mode, n, atoms, I, saved, E, filt>>

Next == Delete \/ Restore \/ Search
Spec == Init /\ [][Next]_vars

(* ---------- properties --------------------------------------------------- *)
C19_Inverse == (mode = "reinsert" /\ phase = "restored") => atoms = Ident(n)
C19_DeleteRemoves == (mode = "reinsert" /\ phase = "deleted") =>
        /\ Len(atoms) = n - Len(I)
        /\ QRange(atoms) = (1..n) \ {I[k] : k \in 1..Len(I)}
        /\ \A a, b \in 1..Len(atoms) : a < b => atoms[a] < atoms[b]      \* order kept
C19_Partition == (mode = "search" /\ phase = "searched") =>
        /\ \A C, D \in labelled : C # D => C \cap D = {}
        /\ \A C \in labelled : \A v \in C : \A w \in 1..n : ({v, w} \in E => w \in C)
        /\ \A v \in 1..n : (\E C \in labelled : v \in C) <=> Admits(filt, Cardinality(Grow({v}, E, n)))

(* ---------- export -------------------------------------------------------- *)
ReinsertCases == {[kind |-> "reinsert", n |-> k, I |-> J,
                   after_delete |-> DeleteAt(Ident(k), J),
                   after_reinsert |-> Reinsert(DeleteAt(Ident(k), J), Saved(Ident(k), J), J)]
                  : <<k, J>> \in UNION {{<<m, p>> : p \in Perms(1..m)} : m \in 1..MaxN}}
SearchCases == {[kind |-> "search", n |-> c[1], edges |-> {SetToSortSeq(e, <) : e \in c[2]}, filter |-> c[3],
                 groups |-> {SetToSortSeq(C, <) : C \in Admitted(c[2], c[1], c[3])}]
                : c \in UNION {{<<m, Ed, f>> : Ed \in SUBSET Pairs(m), f \in Filters} : m \in 1..MaxN}}

Export ==
    IF TLCGet("stats").distinct < 0 \/ OutFile = "" THEN TRUE
    ELSE ndJsonSerialize(OutFile, SetToSeq(ReinsertCases) \o SetToSeq(SearchCases))
=============================================================================
