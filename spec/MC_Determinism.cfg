SPECIFICATION Spec
INVARIANT C06_SameSeedSameState
INVARIANT C06_DifferentSeedsDiffer
INVARIANT C06_SeedHonoured
INVARIANT C06_OwnStreamOnly
