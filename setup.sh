#!/bin/sh
# Offline setup: nothing is fetched or compiled.  Parse every TLA+ module with SANY
# and smoke-test that the harness can import quansino from /repo/src.
set -e
here=$(cd "$(dirname "$0")" && pwd)
cd "$here/spec"
fail=0
for f in *.tla; do
  m=${f%.tla}
  if ! java -cp /opt/veriftools/tla/tla2tools.jar:/opt/veriftools/tla/CommunityModules-deps.jar tla2sany.SANY "$f" > /tmp/sany_$$.log 2>&1 || grep -q -E "Semantic errors|Parse Error|Fatal errors|Could not" /tmp/sany_$$.log; then
    echo "SANY failed on $f"; cat /tmp/sany_$$.log; fail=1
  fi
done
rm -f /tmp/sany_$$.log
cd "$here"
PYTHONPATH=/repo/src /venv/bin/python -c "import quansino.mc, quansino.moves, quansino.operations, quansino.io, quansino.utils; print('harness imports ok')" || fail=1
mkdir -p "$here/evidence" "$here/replays"
exit $fail
